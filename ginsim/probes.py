"""Probe configurables compiled from specs (DESIGN 2.5), the run log, tokens.

A ProbeSpec is a JSON dict:
  {"name": "f0", "kind": "fn" | "cls_init" | "cls_new" | "cls_both" | "cls_plain"
                       | "cls_meta" | "cls_slots" | "callable_obj",
   "params": [{"n": "a", "k": "pos" | "def" | "kwo" | "kwodef", "d": <json>}...],
   "varargs": bool, "varkw": bool,
   "api": "configurable" | "register" | "external",
   "module": "m.sub" | None, "regname": str | None,
   "allow": [...] | None, "deny": [...] | None}
The default "d" may be the string "__REQUIRED__".
"""
import hashlib
import re
import types

from ginsim import world

REQ = '__REQUIRED__'


class Tok:
  """A unique, non-literal object with a run-local serial number."""
  __slots__ = ('serial', 'label', 'extra')

  def __init__(self, serial, label=''):
    self.serial = serial
    self.label = label
    self.extra = None

  def __repr__(self):
    return '<Tok %s#%d>' % (self.label, self.serial)


class Log:
  """Append-only run log with a stable digest."""

  def __init__(self):
    self.events = []
    self._serial = 0

  def add(self, *ev):
    self.events.append(ev)

  def serial(self):
    self._serial += 1
    return self._serial

  def tok(self, label=''):
    return Tok(self.serial(), label)

  def digest(self):
    h = hashlib.sha1()
    for ev in self.events:
      h.update(stable(ev).encode())
      h.update(b'\n')
    return h.hexdigest()


_ADDR_RE = re.compile(r' at 0x[0-9a-fA-F]+')


def scrub(text):
  """Removes object addresses (the only process-dependent part of messages)."""
  if '0x' in text:
    return _ADDR_RE.sub('', text)
  return text


def stable(v):
  """A repr without addresses, stable across processes and hash seeds."""
  if isinstance(v, Tok):
    return repr(v)
  if isinstance(v, str):
    return repr(scrub(v))
  if isinstance(v, int) and not isinstance(v, bool) and \
      v.bit_length() > 10000:
    return '<int of %d bits>' % v.bit_length()   # beyond repr's digit limit
  if isinstance(v, (bytes, int, float, bool, type(None))):
    return repr(v)
  if isinstance(v, (list, tuple)):
    o, c = ('[', ']') if isinstance(v, list) else ('(', ')')
    return o + ', '.join(stable(x) for x in v) + c
  if isinstance(v, dict):
    return '{' + ', '.join('%s: %s' % (stable(k), stable(x))
                           for k, x in v.items()) + '}'
  if isinstance(v, (set, frozenset)):
    return 'set(' + ', '.join(sorted(stable(x) for x in v)) + ')'
  tn = type(v).__name__
  if tn == 'ConfigurableReference':
    return '@%s%s' % (v.scoped_selector, '()' if v.evaluate else '')
  if tn == '_UnknownConfigurableReference':
    return '@?%s%s' % (v.selector, '()' if v.evaluate else '')
  if isinstance(v, BaseException):
    return '%s(%s)' % (type(v).__name__, stable(str(v))[:200])
  if isinstance(v, type):
    return '<class %s>' % v.__name__
  if callable(v):
    return '<callable %s>' % getattr(v, '__name__', type(v).__name__)
  return '<%s>' % type(v).__name__


def signature_src(spec):
  parts = []
  seen_kwo = False
  for p in spec.get('params', []):
    if p['k'] in ('kwo', 'kwodef') and not seen_kwo:
      if spec.get('varargs'):
        parts.append('*args')
      else:
        parts.append('*')
      seen_kwo = True
    if p['k'] in ('def', 'kwodef'):
      parts.append('%s=_D[%r]' % (p['n'], p['n']))
    else:
      parts.append(p['n'])
  if spec.get('varargs') and not seen_kwo:
    parts.append('*args')
  if spec.get('varkw'):
    parts.append('**kwargs')
  return ', '.join(parts)


def _received_src(spec):
  named = ', '.join('%r: %s' % (p['n'], p['n']) for p in spec.get('params', []))
  va = 'args' if spec.get('varargs') else '()'
  vk = 'kwargs' if spec.get('varkw') else '{}'
  return '{%s}, %s, %s' % (named, va, vk)


def compile_probe(spec, hook, module_name='ginsim_probes'):
  """Compiles the spec into a real function / class.  `hook(name, named, args,
  kwargs, self_or_None)` is called by the body; its return value is returned by
  function probes."""
  gin = world.gin
  name = spec['name']
  defaults = {}
  for p in spec.get('params', []):
    if p['k'] in ('def', 'kwodef'):
      defaults[p['n']] = gin.REQUIRED if p.get('d') == REQ else p.get('d')
  sig = signature_src(spec)
  recv = _received_src(spec)
  kind = spec.get('kind', 'fn')
  g = {'_D': defaults, '_hook': hook, '__name__': module_name}
  doc = 'Probe %s (%s).' % (name, kind)
  if kind == 'fn':
    src = ('def {n}({sig}):\n  {doc!r}\n'
           '  return _hook({n!r}, {recv}, None)\n').format(
               n=name, sig=sig, doc=doc, recv=recv)
  elif kind in ('cls_init', 'cls_slots', 'cls_meta'):
    ssig = 'self' + (', ' + sig if sig else '')
    extra = ''
    pre = ''
    meta = ''
    if kind == 'cls_slots':
      extra = "  __slots__ = ('got',)\n"
    if kind == 'cls_meta':
      pre = 'class _Meta_{n}(type):\n  pass\n'.format(n=name)
      meta = '(metaclass=_Meta_{n})'.format(n=name)
    src = (pre + 'class {n}{meta}:\n  {doc!r}\n' + extra +
           '  def __init__({ssig}):\n'
           '    self.got = _hook({n!r}, {recv}, self)\n').format(
               n=name, ssig=ssig, doc=doc, recv=recv, meta=meta)
  elif kind == 'cls_new':
    ssig = 'cls' + (', ' + sig if sig else '')
    src = ('class {n}:\n  {doc!r}\n'
           '  def __new__({ssig}):\n'
           '    self = super().__new__(cls)\n'
           '    self.got = _hook({n!r}, {recv}, self)\n'
           '    return self\n').format(n=name, ssig=ssig, doc=doc, recv=recv)
  elif kind == 'cls_both':
    ssig = 'self' + (', ' + sig if sig else '')
    src = ('class {n}:\n  {doc!r}\n'
           '  def __new__(cls, *a, **k):\n'
           '    return super().__new__(cls)\n'
           '  def __init__({ssig}):\n'
           '    self.got = _hook({n!r}, {recv}, self)\n').format(
               n=name, ssig=ssig, doc=doc, recv=recv)
  elif kind == 'callable_obj':
    # an instance with __call__ (registrable through external_configurable)
    ssig = 'self' + (', ' + sig if sig else '')
    src = ('class _{n}_type:\n  {doc!r}\n'
           '  def __call__({ssig}):\n'
           '    return _hook({n!r}, {recv}, None)\n'
           '{n} = _{n}_type()\n').format(n=name, ssig=ssig, doc=doc, recv=recv)
  elif kind == 'cls_plain':
    src = 'class {n}:\n  {doc!r}\n  pass\n'.format(n=name, doc=doc)
  else:
    raise ValueError('unknown probe kind %r' % kind)
  exec(compile(src, '<probe %s>' % name, 'exec'), g)  # pylint: disable=exec-used
  obj = g[name]
  try:
    obj.__module__ = module_name
  except AttributeError:
    pass
  return obj, src


def register_probe(spec, obj):
  """Registers obj with gin per spec; returns what the API returned."""
  gin = world.gin
  api = spec.get('api', 'configurable')
  kw = {}
  if spec.get('module') is not None:
    kw['module'] = spec['module']
  if spec.get('allow') is not None:
    kw['allowlist'] = list(spec['allow'])
  if spec.get('deny') is not None:
    kw['denylist'] = list(spec['deny'])
  regname = spec.get('regname')
  if api == 'configurable':
    return gin.configurable(regname, **kw)(obj)
  if api == 'register':
    return gin.register(regname, **kw)(obj)
  if api == 'external':
    return gin.external_configurable(obj, name=regname, **kw)
  raise ValueError(api)


def plant_module(dotted, attrs=None):
  """Creates (or returns) a chain of ModuleType objects in sys.modules."""
  import sys
  parts = dotted.split('.')
  parent = None
  for i in range(len(parts)):
    name = '.'.join(parts[:i + 1])
    mod = sys.modules.get(name)
    if mod is None:
      mod = types.ModuleType(name)
      mod.__path__ = []
      mod.__file__ = '<ginsim virtual module %s>' % name
      sys.modules[name] = mod
      if parent is not None:
        setattr(parent, parts[i], mod)
    parent = mod
  for k, v in (attrs or {}).items():
    setattr(parent, k, v)
  return parent
