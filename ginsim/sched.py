"""Deterministic thread scheduler (DESIGN 2.2).

Managed threads are real `threading.Thread`s, but exactly one runs at a time: a
thread runs only while it holds the baton (its private gate semaphore has been
released by whoever ran before).  Pre-emption points are

  * every `line` trace event in a frame whose code lives under the repo's gin/
    directory (installed with sys.settrace in each managed thread),
  * SimLock acquire / release,
  * explicit `yield_point(tag)` calls from probe bodies,
  * thread start and end.

At a pre-emption point the *running* thread consults the policy (all PRNG draws
are therefore totally ordered) and either keeps going or hands the baton over.
Every choice of "who runs next" is recorded; a recorded list can be replayed
instead of the PRNG.
"""
import hashlib
import os
import sys
import threading

from ginsim import world

MAX_YIELDS = 200000


class Deadlock(Exception):
  pass


class StepCap(Exception):
  pass


class _T:
  __slots__ = ('tid', 'name', 'fn', 'gate', 'thread', 'state', 'exc', 'result',
               'atomic', 'blocked_on', 'prio', 'last_loc', 'nyield')

  def __init__(self, tid, name, fn):
    self.tid = tid
    self.name = name
    self.fn = fn
    self.gate = threading.Semaphore(0)
    self.thread = None
    self.state = 'new'        # new | runnable | blocked | done
    self.exc = None
    self.result = None
    self.atomic = 0
    self.blocked_on = None
    self.prio = 0
    self.last_loc = 'start'
    self.nyield = 0           # thread-local count of yield points passed


class Sched:
  """One simulated multi-thread execution."""

  def __init__(self, rng, policy, replay=None, length_hint=200, windows=None,
               opcode_funcs=()):
    """Args:
      rng: random.Random for every scheduling choice (unused under replay).
      policy: dict, one of {'kind':'seq'}, {'kind':'rand','p':float},
        {'kind':'pct','d':int}, {'kind':'target','k':int}.
      replay: optional recorded schedule {'switches': [[from_tid,
        from_local_yield_idx, to_tid], ...], 'forced': [to_tid, ...]} to follow
        instead of rng/policy.  Switch points are indexed by the *pre-empted
        thread's own* yield count, so that they keep their meaning when
        operations of other threads are removed during minimisation.
      length_hint: expected number of yield points (places pct/target points).
      windows: {name: (filename_suffix, first_line, last_line)} watched windows.
      opcode_funcs: function names inside gin traced at opcode granularity.
    """
    self.rng = rng
    self.policy = policy
    self.replay = replay
    self.threads = []
    self.cur = None
    self.yields = 0
    self.switch_log = []      # [yield_idx, from, to, loc, from_local_idx]
    self.forced_log = []      # to_tid for each forced choice, in order
    self.edges = set()
    self.window_hits = {}
    self.windows = windows or {}
    self.main_gate = threading.Semaphore(0)
    self.failure = None       # Deadlock / StepCap / replay divergence
    self._gin_dir = world.gin_dir() + os.sep
    self._tls = threading.local()
    self._opcode_funcs = set(opcode_funcs)
    self._forced_i = 0
    self._switch_at = {}
    if replay is not None:
      for frm, idx, to in replay.get('switches', []):
        self._switch_at[(int(frm), int(idx))] = int(to)
      self._forced = [int(x) for x in replay.get('forced', [])]
    kind = policy.get('kind')
    self._points = set()
    n = max(int(length_hint), 1)
    if replay is None:
      if kind == 'target':
        for _ in range(policy.get('k', 1)):
          self._points.add(rng.randrange(n))
      elif kind == 'pct':
        for _ in range(policy.get('d', 1)):
          self._points.add(rng.randrange(n))
    self._p = policy.get('p', 0.0)
    self._kind = kind if replay is None else 'replay'

  # -- construction -------------------------------------------------------
  def spawn(self, fn, name=None, thread_name=None):
    """Registers a new managed thread; may be called before or during run().

    thread_name: the threading.Thread name (default 'sim-<tid>'); callers may
    give several threads the same name, as worker pools do."""
    tid = len(self.threads)
    t = _T(tid, name or ('t%d' % tid), fn)
    if self._kind == 'pct':
      t.prio = self.rng.random() + 1.0
    self.threads.append(t)
    th = threading.Thread(target=self._bootstrap, args=(t,),
                          name=thread_name or 'sim-%d' % tid, daemon=True)
    t.thread = th
    t.state = 'runnable'
    th.start()   # it immediately parks on its gate
    return tid

  def thread_state(self):
    return getattr(self._tls, 't', None)

  # -- thread side --------------------------------------------------------
  def _bootstrap(self, t):
    self._tls.t = t
    t.gate.acquire()
    if self.failure is not None:
      t.state = 'done'
      return
    sys.settrace(self._global_trace)
    try:
      t.result = t.fn()
    except BaseException as e:  # pylint: disable=broad-except
      t.exc = e
    finally:
      sys.settrace(None)
      t.state = 'done'
      self._handoff_from_finished(t)

  def _global_trace(self, frame, event, arg):
    if event == 'call' and frame.f_code.co_filename.startswith(self._gin_dir):
      if frame.f_code.co_name in self._opcode_funcs:
        frame.f_trace_opcodes = True
      return self._local_trace
    return None

  def _local_trace(self, frame, event, arg):
    if event == 'line' or event == 'opcode':
      t = self._tls.t
      if not t.atomic:
        code = frame.f_code
        # (an opcode event inside exception clean-up code carries no line)
        loc = '%s:%d' % (code.co_filename[len(self._gin_dir):],
                         frame.f_lineno or 0)
        self._yield(t, loc, code.co_name)
    return self._local_trace

  def yield_point(self, tag):
    t = self.thread_state()
    if t is None or t.atomic:
      return
    self._yield(t, tag, None)

  def atomic(self):
    return _Atomic(self)

  def _yield(self, t, loc, fn_name):
    idx = self.yields
    self.yields = idx + 1
    lidx = t.nyield
    t.nyield = lidx + 1
    t.last_loc = loc
    if idx >= MAX_YIELDS:
      self._fail(StepCap('step cap %d reached' % MAX_YIELDS))
      raise SystemExit  # unwinds this thread
    kind = self._kind
    to = None
    if kind == 'replay':
      want = self._switch_at.get((t.tid, lidx))
      if want is not None and want != t.tid:
        if 0 <= want < len(self.threads) and \
            self.threads[want].state == 'runnable':
          to = self.threads[want]
    elif kind == 'seq':
      return
    elif kind == 'rand':
      if self.rng.random() < self._p:
        others = [o for o in self.threads
                  if o.state == 'runnable' and o is not t]
        if others:
          to = others[self.rng.randrange(len(others))]
    elif kind == 'target':
      if idx in self._points:
        others = [o for o in self.threads
                  if o.state == 'runnable' and o is not t]
        if others:
          to = others[self.rng.randrange(len(others))]
    elif kind == 'pct':
      if idx in self._points:
        t.prio = -float(idx + 1)   # lower than anything so far
      best = t
      for o in self.threads:
        if o.state == 'runnable' and o.prio > best.prio:
          best = o
      if best is not t:
        to = best
    if to is None:
      return
    self._record_switch(idx, lidx, t, to, loc, fn_name)
    to.gate.release()
    t.gate.acquire()
    if self.failure is not None:
      raise SystemExit

  def _record_switch(self, idx, lidx, t, to, loc, fn_name):
    self.switch_log.append([idx, t.tid, to.tid, loc, lidx])
    self.edges.add((loc, to.last_loc))
    for name, (suffix, lo, hi) in self.windows.items():
      f, _, ln = loc.rpartition(':')
      if f.endswith(suffix) and ln.isdigit() and lo <= int(ln) <= hi:
        self.window_hits[name] = self.window_hits.get(name, 0) + 1

  def _pick_forced(self, exclude):
    """Chooses who runs when the current thread cannot continue."""
    cands = [o for o in self.threads if o.state == 'runnable' and o is not exclude]
    if not cands:
      return None
    if self._kind == 'replay':
      to = None
      if self._forced_i < len(self._forced):
        want = self._forced[self._forced_i]
        for o in cands:
          if o.tid == want:
            to = o
      self._forced_i += 1
      if to is None:
        to = cands[0]
    elif self._kind == 'pct':
      to = max(cands, key=lambda o: o.prio)
    else:
      to = cands[self.rng.randrange(len(cands))]
    self.forced_log.append(to.tid)
    return to

  def _handoff_from_finished(self, t):
    if self.failure is not None:
      self.main_gate.release()
      return
    to = self._pick_forced(t)
    if to is not None:
      to.gate.release()
      return
    if any(o.state == 'blocked' for o in self.threads):
      self._fail(Deadlock(self._deadlock_text()))
    self.main_gate.release()

  def block_on(self, lock):
    """Called by SimLock.acquire when the lock is held by someone else."""
    t = self.thread_state()
    t.state = 'blocked'
    t.blocked_on = lock
    to = self._pick_forced(t)
    if to is None:
      self._fail(Deadlock(self._deadlock_text()))
      self.main_gate.release()
      t.gate.acquire()
      raise SystemExit
    to.gate.release()
    t.gate.acquire()
    if self.failure is not None:
      raise SystemExit

  def lock_released(self, lock):
    for o in self.threads:
      if o.state == 'blocked' and o.blocked_on is lock:
        o.state = 'runnable'
        o.blocked_on = None

  def _deadlock_text(self):
    parts = []
    for o in self.threads:
      if o.state == 'blocked':
        parts.append('t%d blocked at %s on lock owned by %r' %
                     (o.tid, o.last_loc, getattr(o.blocked_on, '_owner', None)))
    return '; '.join(parts)

  def _fail(self, exc):
    if self.failure is None:
      self.failure = exc

  # -- main side ----------------------------------------------------------
  def run(self):
    """Runs all spawned threads to completion under the policy."""
    if not self.threads:
      return
    world.CURRENT_SCHED = self
    try:
      first = self._pick_forced(None)
      first.gate.release()
      self.main_gate.acquire()
      if self.failure is not None:
        # Release everything still parked so the threads can unwind.
        for o in self.threads:
          if o.state != 'done':
            o.gate.release()
      for o in self.threads:
        o.thread.join(timeout=5)
    finally:
      world.CURRENT_SCHED = None

  def record(self):
    return {'switches': [[s[1], s[4], s[2]] for s in self.switch_log],
            'forced': list(self.forced_log)}

  def digest(self):
    h = hashlib.sha1()
    h.update(repr(self.switch_log).encode())
    h.update(repr(self.forced_log).encode())
    return h.hexdigest()


class _Atomic:

  def __init__(self, s):
    self.s = s

  def __enter__(self):
    t = self.s.thread_state()
    if t is not None:
      t.atomic += 1

  def __exit__(self, *exc):
    t = self.s.thread_state()
    if t is not None:
      t.atomic -= 1
