"""Signature generation, binding store model and expected-call computation.

The model restates the rules of properties C01 / C10 / C07 (DESIGN Appendix A3,
A4, A8); it never imports gin.
"""
import copy

REQ = '__REQUIRED__'
# Names that are string prefixes of one another on purpose: scope matching must
# be component-wise, not textual.
SCOPE_ALPHA = ['a', 'b', 'ab', 'bb']


# ---------------------------------------------------------------------------
# Specs
# ---------------------------------------------------------------------------

def gen_spec(rng, name, allow_required=False, kinds=('fn',), lists=False,
             module=None, max_params=5):
  """Draws a probe spec with a random signature shape."""
  kind = rng.choice(list(kinds))
  n = rng.randint(0, max_params)
  params = []
  names = ['p%d' % i for i in range(n)]
  n_pos = rng.randint(0, n)
  # positional block: no-default ones first, then defaulted
  n_nodef = rng.randint(0, n_pos)
  uid = [0]

  def default():
    if allow_required and rng.random() < 0.35:
      return REQ
    uid[0] += 1
    return 'd%d_%s' % (uid[0], name)
  for i in range(n_pos):
    if i < n_nodef:
      params.append({'n': names[i], 'k': 'pos'})
    else:
      params.append({'n': names[i], 'k': 'def', 'd': default()})
  for i in range(n_pos, n):
    if rng.random() < 0.5:
      params.append({'n': names[i], 'k': 'kwo'})
    else:
      params.append({'n': names[i], 'k': 'kwodef', 'd': default()})
  spec = {'name': name, 'kind': kind, 'params': params,
          'varargs': rng.random() < 0.25, 'varkw': rng.random() < 0.25,
          'api': rng.choice(['configurable', 'configurable', 'register',
                             'external']) if kind != 'method'
                 else 'configurable', 'module': module}
  if kind == 'callable_obj':
    # an instance has no __name__: only external_configurable(obj, name=...)
    spec['api'] = 'external'
    spec['regname'] = name
  if lists and params and rng.random() < 0.4:
    chosen = [p['n'] for p in params if rng.random() < 0.5]
    # a signature-level REQUIRED must stay configurable
    req = [p['n'] for p in params if p.get('d') == REQ]
    if rng.random() < 0.5:
      allow = sorted(set(chosen) | set(req))
      if allow:
        spec['allow'] = allow
    else:
      deny = sorted(set(chosen) - set(req))
      if deny:
        spec['deny'] = deny
  return spec


def full_name(spec):
  mod = spec.get('module')
  nm = spec.get('regname') or spec['name']
  if spec.get('kind') == 'regmethod':
    # a registered method of a registered class lives under the class
    nm = 'H_%s.%s' % (spec['name'], spec['name'])
  return (mod + '.' + nm) if mod else 'ginsim_probes.' + nm


def display_name(spec):
  """The shortest selector gin prints for the probe (names are unique)."""
  # (error messages use the registry's minimal selector, which for a method is
  # its bare - unique - name)
  return spec['name']


def gen_alias(rng, base, name):
  """A second registration of the SAME underlying callable under another name,
  with its own allow/deny list (a registration history gin supports)."""
  spec = {'name': name, 'kind': base['kind'], 'params': copy.deepcopy(base['params']),
          'varargs': base.get('varargs'), 'varkw': base.get('varkw'),
          'api': 'external', 'module': base.get('module'),
          'alias_of': base['name']}
  req = [p['n'] for p in spec['params'] if p.get('d') == REQ]
  names = [p['n'] for p in spec['params']]
  r = rng.random()
  if names and r < 0.35:
    allow = sorted(set(n for n in names if rng.random() < 0.5) | set(req))
    if allow:
      spec['allow'] = allow
  elif names and r < 0.7:
    deny = sorted(set(n for n in names if rng.random() < 0.5) - set(req))
    if deny:
      spec['deny'] = deny
  return spec


def alias_eligible(spec):
  """Only callables that registration leaves untouched can be registered twice
  independently (a @configurable class is modified in place)."""
  if spec['kind'] in ('method', 'regmethod') or spec.get('alias_of'):
    return False
  return spec['kind'] == 'fn' or spec.get('api') in ('register', 'external')


def positional_names(spec):
  return [p['n'] for p in spec['params'] if p['k'] in ('pos', 'def')]


def all_names(spec):
  return [p['n'] for p in spec['params']]


def configurable_param(spec, name):
  """Binding admission (A6) for a parameter name."""
  if name not in all_names(spec) and not spec.get('varkw'):
    return False
  if spec.get('allow') and name not in spec['allow']:
    return False
  if spec.get('deny') and name in spec['deny']:
    return False
  return True


# ---------------------------------------------------------------------------
# Store
# ---------------------------------------------------------------------------

class Model:

  def __init__(self, specs):
    self.specs = {full_name(s): s for s in specs}
    self.store = {}
    self.operative = {}

  def bind(self, scope, full, param, value):
    self.store.setdefault((scope, full), {})[param] = value

  def clear(self):
    self.store.clear()
    self.operative.clear()

  def applicable(self, full, scope, strict=False):
    """A3: fold root then each longer prefix of `scope` (a list)."""
    out = {}
    if strict:
      prefixes = [scope]
    else:
      prefixes = [scope[:i] for i in range(len(scope) + 1)]
    for p in prefixes:
      out.update(self.store.get(('/'.join(p), full), {}))
    return out

  # -------------------------------------------------------------------------
  def expect_call(self, full, scope, pos, kw, record=True):
    """A4. pos: list of values (REQ marker allowed); kw: dict.

    Returns {'status': 'ok', 'named', 'args', 'kwargs', 'from_gin': set} or
    {'status': 'error', 'exc': ..., 'missing': [...]}."""
    spec = self.specs[full]
    pnames = positional_names(spec)
    names = all_names(spec)
    npos = min(len(pos), len(pnames))
    supplied = pnames[:npos]
    extra = list(pos[len(pnames):])
    if any(x == REQ for x in extra):
      return {'status': 'error', 'exc': 'ValueError', 'missing': None}
    req_pos = [(i, pnames[i]) for i in range(npos) if pos[i] == REQ]
    req_pos_names = [n for _, n in req_pos]
    req_kw = [k for k, v in kw.items() if v == REQ]
    b = dict(self.applicable(full, scope))
    for n in supplied:
      if n not in req_pos_names:
        b.pop(n, None)
    # operative record (A8): literal defaults within the lists, plus applicable
    # bindings, minus what the caller supplied.
    if record:
      op = {}
      for p in spec['params']:
        if 'd' in p and p['d'] != REQ and configurable_param(spec, p['n']):
          op[p['n']] = p['d']
      op.update(b)
      for n in supplied:
        if n not in req_pos_names:
          op.pop(n, None)
      for k in kw:
        if k not in req_kw:
          op.pop(k, None)
      self.operative.setdefault(('/'.join(scope), full), {}).update(op)
    missing = []
    filled = set()
    new_args = list(pos)
    for i, n in req_pos:
      if n not in b:
        missing.append(n)
      else:
        new_args[i] = b.pop(n)
        filled.add(n)
    for p in spec['params']:
      if p.get('d') == REQ:
        n = p['n']
        if n not in supplied and n not in kw and n not in b:
          missing.append(n)
    kw = dict(kw)
    for n in req_kw:
      if n not in b:
        missing.append(n)
      else:
        kw.pop(n)
        filled.add(n)
    if missing:
      ordered = [n for n in names if n in missing]
      ordered += [n for n in missing if n not in ordered]
      return {'status': 'error', 'exc': 'RuntimeError', 'missing': ordered}
    from_gin = (set(b) - set(kw)) | filled
    b.update(kw)
    # Python-level binding of (new_args, b) to the signature.
    named = {}
    rest_kw = dict(b)
    for i, n in enumerate(pnames):
      if i < len(new_args):
        named[n] = new_args[i]
      elif n in rest_kw:
        named[n] = rest_kw.pop(n)
    for p in spec['params']:
      n = p['n']
      if n in named:
        continue
      if n in rest_kw:
        named[n] = rest_kw.pop(n)
      elif 'd' in p:
        named[n] = p['d']
      else:
        return {'status': 'error', 'exc': 'TypeError', 'missing': [n]}
    if rest_kw and not spec.get('varkw'):
      return {'status': 'error', 'exc': 'TypeError', 'missing': sorted(rest_kw)}
    return {'status': 'ok', 'named': named, 'args': extra, 'kwargs': rest_kw,
            'from_gin': from_gin}


# ---------------------------------------------------------------------------
# Call-shape generation
# ---------------------------------------------------------------------------

def gen_call(rng, spec, model, scope, uid, allow_required=False,
             allow_failing=False):
  """Draws (pos, kw) for a call that the model accepts (unless
  allow_failing).  Caller values are strings 'c<uid>' (unique)."""
  full = full_name(spec)
  pnames = positional_names(spec)
  b = model.applicable(full, scope)

  def cval():
    uid[0] += 1
    return 'c%d' % uid[0]
  for _ in range(20):
    k = rng.randint(0, len(pnames))
    pos = []
    for i in range(k):
      if allow_required and rng.random() < 0.3:
        pos.append(REQ)
      else:
        pos.append(cval())
    if spec.get('varargs') and k == len(pnames) and rng.random() < 0.5:
      for _ in range(rng.randint(1, 2)):
        if allow_required and allow_failing and rng.random() < 0.15:
          pos.append(REQ)
        else:
          pos.append(cval())
    kw = {}
    for p in spec['params']:
      n = p['n']
      if n in pnames[:k]:
        continue
      r = rng.random()
      need = p['k'] in ('pos', 'kwo') and n not in b
      if p['k'] == 'pos' and pnames.index(n) >= k and need:
        kw[n] = cval()
      elif need and not allow_failing:
        kw[n] = cval()
      elif r < 0.25:
        kw[n] = REQ if (allow_required and rng.random() < 0.4) else cval()
    if spec.get('varkw') and rng.random() < 0.3:
      name = 'x%d' % rng.randint(0, 2)
      kw[name] = REQ if (allow_required and rng.random() < 0.3) else cval()
    exp = model.expect_call(full, scope, pos, kw, record=False)
    if exp['status'] == 'ok' or allow_failing:
      if exp['status'] == 'error' and exp['exc'] == 'TypeError':
        continue
      return pos, kw
  return None
