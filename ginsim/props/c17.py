"""C17 - exceptions from configurables keep their type, data and traceback.

Exception-fault enumeration (DESIGN 3/C17).  A run fixes an injection site
(function body, __init__, __new__, evaluated reference, macro-held reference,
singleton constructor, scoped get_configurable), a nesting depth 1-4 and scope
layout, and then injects EVERY exception class of the catalogue (all concrete
builtin exception classes built with canonical arguments + generated user class
shapes) at that point, comparing the object the outermost caller catches with
the original.
"""
import builtins
import copy
import random
import re

from ginsim import probes, shrink, world

ID = 'C17'
LEVEL = 'fault_enumeration'
QUICK_RUNS = 2000
THOROUGH_RUNS = 40000
SHRINK_BUDGET = 120
RULE = ('run i draws from Random("<seed>/C17/<i>") an injection site (7 kinds), '
        'a nesting depth 1-4 of configurable calls, the scopes active per level '
        'and the level at which the fault fires; it then injects every class of '
        'the catalogue (every concrete BaseException subclass in builtins with '
        'canonical arguments + 14 generated user class shapes) there. '
        'coverage.op_kinds.injections counts injected exceptions. Non-trivial = '
        'depth>=2 or a reference/macro/singleton/scoped site; distinct = digest '
        'of (site plan, per-class observations).')
COMPONENTS = {
    'real': ['gin.config gin_wrapper exception path', 'gin.utils '
             'augment_exception_message_and_reraise', 'scoped wrappers, '
             'reference evaluation, gin.singleton, gin.macro'],
    'simulated': ['exceptions injected into probe bodies / constructors'],
    'stub': ['probe configurables'],
}
ASSUMPTIONS = ['CPython 3.12 exception classes']

SITES = ['fn_body', 'cls_init', 'cls_new', 'ref_eval', 'macro_ref',
         'singleton_ctor', 'scoped_getcfg']


# ---------------------------------------------------------------------------
# Catalogue
# ---------------------------------------------------------------------------

def _builtin_classes():
  out = []
  for name in sorted(dir(builtins)):
    obj = getattr(builtins, name)
    if isinstance(obj, type) and issubclass(obj, BaseException):
      if obj.__name__ != name:
        continue   # alias (IOError, EnvironmentError, ...)
      out.append(obj)
  return out


def _make_builtin(cls):
  n = cls.__name__
  if issubclass(cls, BaseExceptionGroup):
    if cls is BaseExceptionGroup:
      return cls('grp', [KeyboardInterrupt('k'), ValueError(1)])
    return cls('grp', [ValueError(1), KeyError('k')])
  if issubclass(cls, UnicodeEncodeError):
    return cls('utf-8', 'ab\udc80', 2, 3, 'surrogates not allowed')
  if issubclass(cls, UnicodeDecodeError):
    return cls('utf-8', b'ab\xff', 2, 3, 'invalid start byte')
  if issubclass(cls, UnicodeTranslateError):
    return cls('ab\udc80', 2, 3, 'cannot translate')
  if issubclass(cls, SyntaxError):
    return cls('bad syntax', ('file.gin', 3, 5, 'f.a = = 1\n', 3, 7))
  if issubclass(cls, OSError):
    if cls is BlockingIOError:
      return cls(11, 'would block', 7)
    return cls(2, 'No such thing', '/path/one', None, '/path/two')
  if issubclass(cls, ImportError):
    return cls('cannot import', name='modname', path='/some/path.py')
  if issubclass(cls, StopIteration):
    return cls('the-value')
  if issubclass(cls, StopAsyncIteration):
    return cls('async-value')
  if issubclass(cls, SystemExit):
    return cls(3)
  if issubclass(cls, AttributeError):
    return cls('no attr', name='attrname', obj=[1, 2])
  if issubclass(cls, NameError):
    return cls('no name', name='thename')
  if issubclass(cls, KeyError):
    return cls('missing-key')
  return cls('message for %s' % n, 42)


USER_SRC = '''
class UPlain(Exception):
  pass

class UInitArgs(Exception):
  def __init__(self, code, detail):
    super().__init__('code %s: %s' % (code, detail))
    self.code = code
    self.detail = detail

class UNewArgs(Exception):
  def __new__(cls, code, detail):
    self = super().__new__(cls, code, detail)
    self.code = code
    return self
  def __init__(self, code, detail):
    super().__init__(code, detail)
    self.detail = detail

class UExtra(ValueError):
  def __init__(self, msg):
    super().__init__(msg)
    self.payload = {'k': [1, 2, 3]}
    self.when = 12.5

class UProps(Exception):
  def __init__(self, a):
    super().__init__(a)
    self._a = a
  @property
  def doubled(self):
    return self._a * 2

class USlots(Exception):
  __slots__ = ('limit', 'used')
  def __init__(self, limit, used):
    super().__init__(limit, used)
    self.limit = limit
    self.used = used

class USlotsProp(Exception):
  __slots__ = ('_q',)
  def __init__(self, q):
    super().__init__('q=%r' % q)
    self._q = q
  @property
  def remaining(self):
    return 100 - self._q

class UStr(Exception):
  def __init__(self, who):
    super().__init__(who)
    self.who = who
  def __str__(self):
    return 'custom<%s>' % self.who

class UOSError(OSError):
  def __init__(self, errno_, msg, extra):
    super().__init__(errno_, msg)
    self.extra = extra

class UKeyError(KeyError):
  def __init__(self, key, table):
    super().__init__(key)
    self.table = table

class UBase1(Exception):
  level = 1
class UBase2(UBase1):
  level = 2
class UDeep(UBase2):
  def __init__(self, x):
    super().__init__(x)
    self.x = x

class UTypeErrInt(TypeError):
  pass

def _factory(tag):
  class FactoryErr(Exception):
    origin = tag
  return FactoryErr
FactoryA = _factory('a')
FactoryB = _factory('b')

class UNoneAttr(Exception):
  __slots__ = ('slot_none',)
  def __init__(self, msg):
    super().__init__(msg)
    self.hint = None
    self.slot_none = None
    self.zero = 0
    self.empty = ''

class UNoArgsInit(RuntimeError):
  def __init__(self):
    super().__init__('fixed message')
    self.flag = True

class UNewMismatch(Exception):
  # __new__ wants two arguments, args holds one formatted string: the class
  # cannot be re-instantiated from exception.args
  def __new__(cls, code, detail):
    return super().__new__(cls, code, detail)
  def __init__(self, code, detail):
    super().__init__('code %s: %s' % (code, detail))
    self.code = code

class UNewValidates(Exception):
  # __new__ validates its argument with an error of its own; __init__ leaves
  # a formatted message in args, which __new__ would reject
  CODES = {404: 'not found', 500: 'server error'}
  def __new__(cls, code):
    if code not in cls.CODES:
      raise ValueError('unknown code %r' % (code,))
    return super().__new__(cls, code)
  def __init__(self, code):
    super().__init__('%d %s' % (code, self.CODES[code]))
    self.code = code

class UNewLookup(Exception):
  # the same with a KeyError out of __new__
  TABLE = {'a': 1}
  def __new__(cls, key):
    cls.TABLE[key]
    return super().__new__(cls, key)
  def __init__(self, key):
    super().__init__('entry %s=%d' % (key, self.TABLE[key]))
    self.key = key

class UVarArgs(Exception):
  # __new__ wants two arguments; what ends up in args depends on the instance
  def __new__(cls, source, line):
    return super().__new__(cls, source, line)
  def __init__(self, source, line):
    if line is None:
      super().__init__(source)
    else:
      super().__init__(source, line)
    self.source = source

class URegistry(Exception):
  # keeps a registry of its subclasses and refuses a second one of a name: a
  # proxy SUBCLASS can be made once at most
  registry = {}
  def __init_subclass__(cls, **kw):
    super().__init_subclass__(**kw)
    if cls.__name__ in URegistry.registry:
      raise RuntimeError('duplicate error class %s' % cls.__name__)
    URegistry.registry[cls.__name__] = cls

class UNotFound(URegistry):
  pass

class _FinalMeta(type):
  def __new__(mcs, name, bases, ns):
    if any(isinstance(b, _FinalMeta) for b in bases):
      raise TypeError('%s is final' % bases[0].__name__)
    return super().__new__(mcs, name, bases, ns)

class UFinal(Exception, metaclass=_FinalMeta):
  pass

class UGroupDocs(ExceptionGroup):
  # the subclassing recipe of the Python documentation: __new__ builds an
  # instance of THIS class, whatever class it is given
  def __new__(cls, errors, exit_code):
    self = super().__new__(UGroupDocs, 'exit code: %d' % exit_code, errors)
    self.exit_code = exit_code
    return self
  def derive(self, excs):
    return UGroupDocs(excs, self.exit_code)

class UBaseExc(BaseException):
  def __init__(self, why):
    super().__init__(why)
    self.why = why
'''

UNPROXYABLE = ('UNotFound', 'UFinal', 'UGroupDocs')

USER_CTORS = [
    ('UPlain', "UPlain('plain', 1)"),
    ('UInitArgs', "UInitArgs(7, 'seven')"),
    ('UNewArgs', "UNewArgs(8, 'eight')"),
    ('UExtra', "UExtra('extra')"),
    ('UProps', "UProps(21)"),
    ('USlots', "USlots(10, 3)"),
    ('USlotsProp', "USlotsProp(40)"),
    ('UStr', "UStr('me')"),
    ('UOSError', "UOSError(13, 'denied', {'x': 1})"),
    ('UKeyError', "UKeyError('k', ('t', 1))"),
    ('UBase2', "UBase2('base-first')"),
    ('UDeep', "UDeep('deep')"),
    ('UNoneAttr', "UNoneAttr('has none')"),
    ('FactoryA', "FactoryA('first of two classes with one qualified name')"),
    ('FactoryB', "FactoryB('second')"),
    ('UTypeErrInt', "UTypeErrInt(4, 2)"),
    ('UTypeErrInt', "UTypeErrInt()"),
    ('UNoArgsInit', "UNoArgsInit()"),
    ('UNewMismatch', "UNewMismatch(9, 'nine')"),
    ('UVarArgs', "UVarArgs('src', 3)"),
    ('UVarArgs', "UVarArgs('src', None)"),
    ('UVarArgs', "UVarArgs('src2', 4)"),
    ('UNotFound', "UNotFound('nf')"),
    ('UFinal', "UFinal('final')"),
    ('UGroupDocs', "UGroupDocs([ValueError(1)], 3)"),
    ('UBaseExc', "UBaseExc('base')"),
    ('UNewValidates', "UNewValidates(404)"),
    ('UNewLookup', "UNewLookup('a')"),
]


def catalogue():
  """[(label, factory)] in a fixed order."""
  out = []
  for cls in _builtin_classes():
    out.append((cls.__name__, lambda cls=cls: _make_builtin(cls)))
  g = {'__name__': 'ginsim_user_excs'}
  exec(compile(USER_SRC, '<user exceptions>', 'exec'), g)  # pylint: disable=exec-used
  for i, (name, ctor) in enumerate(USER_CTORS):
    out.append(('%s#%d' % (name, i),
                lambda ctor=ctor: eval(ctor, g)))  # pylint: disable=eval-used
  return out


# ---------------------------------------------------------------------------
# Generation
# ---------------------------------------------------------------------------

def gen(rng, tier):
  depth = rng.choice([1, 1, 2, 2, 3, 4])
  levels = []
  for d in range(depth):
    levels.append({'scope': rng.choice(['', '', 'sa', 'sa/sb']),
                   'kind': rng.choice(['fn', 'fn', 'cls_init', 'cls_new',
                                       'partial']),
                   # registered with a denylist / allowlist of its own
                   'lists': rng.choice([None, None, 'deny', 'allow'])})
  site = rng.choice(SITES)
  return {'site': site, 'levels': levels, 'only': None,
          'sample': None if tier == 'thorough' else None}


# ---------------------------------------------------------------------------
# Execution
# ---------------------------------------------------------------------------

def _public_attrs(obj):
  out = {}
  for n in dir(obj):
    if n.startswith('_') or n in ('with_traceback', 'add_note'):
      continue
    try:
      val = getattr(obj, n)
    except Exception:  # pylint: disable=broad-except
      continue
    if callable(val):
      continue
    out[n] = val
  return out


def _same(a, b):
  if a is b:
    return True
  try:
    return bool(a == b) and type(a) is type(b)
  except Exception:  # pylint: disable=broad-except
    return False


def run(case):
  gin = world.gin
  world.reset()
  viol = []
  lg = probes.Log()
  state = {'exc': None, 'fire': False}
  levels = case['levels']
  depth = len(levels)
  site = case['site']

  def v(oracle, disc, msg):
    viol.append({'oracle': oracle, 'sig': [ID, oracle] + list(disc), 'msg': msg})

  # Level d (0 = outermost) calls level d+1 inside its body; the innermost
  # level is the injection site.
  names = ['lv%d' % d for d in range(depth)]
  objs = {}

  def body(d):
    if d + 1 < depth:
      return call_level(d + 1)
    return inject()

  def inject():
    if site in ('fn_body', 'cls_init', 'cls_new', 'scoped_getcfg'):
      raise_now()
    elif site == 'ref_eval':
      return objs['consumer']()
    elif site == 'macro_ref':
      return objs['mconsumer']()
    elif site == 'singleton_ctor':
      return objs['sconsumer']()
    return None

  def raise_now():
    if state['fire']:
      raise state['exc']

  def hook(name, named, args, kwargs, self_):
    if name.startswith('lv'):
      return body(int(name[2:]))
    if name == 'producer':
      raise_now()
      return 'produced'
    return dict(named)

  def call_level(d):
    sc = levels[d]['scope']
    target = objs[names[d]]
    if site == 'scoped_getcfg' and d == depth - 1:
      target = gin.get_configurable('gs/' + names[d])
    if sc:
      with gin.config_scope(sc):
        return target()
    return target()

  for d, lv in enumerate(levels):
    kind = lv['kind']
    if d == depth - 1 and site in ('cls_init', 'cls_new'):
      kind = site
    if kind == 'partial':
      # a configurable whose repr contains braces and quotes
      import functools
      base, _ = probes.compile_probe(
          {'name': names[d], 'kind': 'fn',
           'params': [{'n': 'table', 'k': 'def', 'd': None}]}, hook)
      part = functools.partial(base, table={'{k}': '{0}', 'q': "'\"%s"})
      objs[names[d]] = gin.external_configurable(part, name=names[d],
                                                 module='ginsim_probes')
      continue
    lspec = {'name': names[d], 'kind': kind, 'params': []}
    if lv.get('lists'):
      lspec['params'] = [{'n': 'zz', 'k': 'def', 'd': None},
                         {'n': 'yy', 'k': 'def', 'd': None}]
      lspec['deny' if lv['lists'] == 'deny' else 'allow'] = ['zz']
    obj, _ = probes.compile_probe(lspec, hook)
    objs[names[d]] = probes.register_probe(lspec, obj)
  prod, _ = probes.compile_probe({'name': 'producer', 'kind': 'fn', 'params': []},
                                 hook)
  objs['producer'] = probes.register_probe({'name': 'producer'}, prod)
  for cname in ('consumer', 'mconsumer', 'sconsumer'):
    c, _ = probes.compile_probe(
        {'name': cname, 'kind': 'fn',
         'params': [{'n': 'x', 'k': 'def', 'd': None}]}, hook)
    objs[cname] = probes.register_probe({'name': cname}, c)
  gin.parse_config('\n'.join([
      "consumer.x = {'deep': [1, (@rs/producer(),)]}",
      'MAC = @producer()',
      'mconsumer.x = [%MAC]',
      'sconsumer.x = @sk/gin.singleton()',
      'sk/gin.singleton.constructor = @producer',
  ]))

  # Fault-free pass: nothing raises (harness sanity).
  state['fire'] = False
  call_level(0)
  gin.clear_config()
  gin.parse_config('\n'.join([
      "consumer.x = {'deep': [1, (@rs/producer(),)]}",
      'MAC = @producer()',
      'mconsumer.x = [%MAC]',
      'sconsumer.x = @sk/gin.singleton()',
      'sk/gin.singleton.constructor = @producer',
  ]))

  cat = catalogue()
  lg.add('plan', site, [(lv['scope'], lv['kind']) for lv in levels])
  injections = 0
  klass_changed = 0
  for label, factory in cat:
    if case.get('only') and label != case['only']:
      continue
    try:
      orig = factory()
    except Exception as e:  # pylint: disable=broad-except
      raise RuntimeError('catalogue entry %s cannot be built: %r' % (label, e))
    state['exc'] = orig
    # what the exception looks like when it is raised (the object that reaches
    # the caller may be this very object)
    want_at_raise = _public_attrs(orig)
    str_at_raise = str(orig)
    state['fire'] = True
    injections += 1
    caught = None
    scope_before = gin.current_scope()
    try:
      call_level(0)
    except BaseException as e:  # pylint: disable=broad-except
      caught = e
    state['fire'] = False
    scope_after = gin.current_scope()
    cls = type(orig)
    family = cls.__name__ if cls.__module__ == 'builtins' else label.split('#')[0]
    obs = [label, type(caught).__name__ if caught is not None else None]
    if caught is None:
      v('C17.propagates', [family], '%s injected at %s depth %d: nothing '
        'reached the caller' % (label, site, depth))
      lg.add(*obs)
      continue
    if scope_after != scope_before:
      v('C17.scope_restored', [], '%s: scope %r after the failed call, %r before'
        % (label, scope_after, scope_before))
    if not isinstance(orig, Exception):
      if caught is not orig:
        v('C17.base_exception_untouched', [family],
          '%s (not an Exception subclass) reached the caller as a different '
          'object %r' % (label, caught))
      lg.add(*obs)
      continue
    # --- class ---
    if not isinstance(caught, cls):
      klass_changed += 1
      v('C17.same_class', [family, type(caught).__name__],
        '%s injected at %s depth %d reached the caller as %s: %s' %
        (label, site, depth, type(caught).__name__,
         probes.scrub(str(caught))[:200]))
      lg.add(*obs)
      continue
    t = type(caught)
    if (t.__name__, t.__qualname__, t.__module__) != (
        cls.__name__, cls.__qualname__, cls.__module__):
      v('C17.class_metadata', [family],
        '%s: caught class is (%s, %s, %s)' % (label, t.__name__,
                                              t.__qualname__, t.__module__))
    # --- args and public attributes ---
    want = want_at_raise
    for n in sorted(want):
      try:
        got = getattr(caught, n)
      except Exception as e:  # pylint: disable=broad-except
        v('C17.attr_equal', [family, n, 'raises'],
          '%s: reading .%s on the caught exception raises %s (original: %r)' %
          (label, n, type(e).__name__, want[n]))
        continue
      if not _same(got, want[n]):
        definer = 'instance'
        for b in cls.__mro__:
          if n in vars(b):
            definer = b.__name__
            break
        v('C17.attr_equal', [definer, n],
          '%s injected at %s depth %d: caught.%s is %r, original.%s is %r' %
          (label, site, depth, n, got, n, want[n]))
    # --- message ---
    if label.split('#')[0] in UNPROXYABLE:
      # no subclass instance can stand in for such an exception (its class
      # refuses subclassing, or its __new__ ignores the class it is given), so
      # there is nothing that could carry an extended message; class, data and
      # traceback (checked above and below) are what counts
      lg.add(*obs)
      continue
    s_orig = str_at_raise
    s = str(caught)
    if not s.startswith(s_orig):
      v('C17.message_extended', [family, 'prefix'],
        '%s: str(caught) %r does not begin with str(original) %r' %
        (label, s[:120], s_orig[:120]))
    innermost_first = list(reversed(range(depth)))
    scopes = []
    cur = []
    for d in range(depth):
      if levels[d]['scope']:
        cur = cur + levels[d]['scope'].split('/')
      if site == 'scoped_getcfg' and d == depth - 1:
        cur = ['gs']
      scopes.append('/'.join(cur))
    pos = 0
    for d in innermost_first:
      # format-agnostic: the configurable's name as a whole word, after the
      # original text, levels in order
      m = re.compile(r'(?<![\w.])%s(?![\w])' % re.escape(names[d])).search(
          s, max(pos, len(s_orig)))
      at = m.start() if m else -1
      if at < 0:
        v('C17.message_extended', ['names-configurable'],
          '%s at %s depth %d: message does not name configurable %s in order '
          '(innermost first):\n%s' % (label, site, depth, names[d],
                                      probes.scrub(s)[:500]))
        break
      line_start = s.rfind('\n', 0, at) + 1
      line = s[line_start:].split('\n', 1)[0]
      want_scope = scopes[d]
      if want_scope and not re.search(
          r'(?<![\w/])%s(?![\w/])' % re.escape(want_scope),
          line.split(names[d], 1)[-1]):
        v('C17.message_extended', ['names-scope'],
          '%s at %s depth %d: line %r does not name the active scope %r' %
          (label, site, depth, probes.scrub(line), scopes[d]))
        break
      if not want_scope and re.search(r'\bscope\b', line.split(names[d], 1)[-1]):
        v('C17.message_extended', ['names-scope'],
          '%s at %s depth %d: line %r names a scope although none is active' %
          (label, site, depth, probes.scrub(line)))
        break
      pos = at + 1
    # --- traceback reaches the raising frame and every level in between ---
    frames = []
    tb = caught.__traceback__
    while tb is not None:
      frames.append(tb.tb_frame.f_code.co_name)
      tb = tb.tb_next
    need = ['raise_now'] + names
    missing = [n for n in need if n not in frames and
               not (n.startswith('lv') and '__init__' in frames and False)]
    # class probes run their body in __init__/__new__ of a class named lvN:
    real_missing = []
    for n in missing:
      if n.startswith('lv'):
        d = int(n[2:])
        k = levels[d]['kind'] if not (d == depth - 1 and site in (
            'cls_init', 'cls_new')) else site
        if k != 'fn':
          continue   # frame is called __init__/__new__, counted below
      real_missing.append(n)
    n_body = sum(1 for f in frames if f in names or f in ('__init__', '__new__'))
    if real_missing or n_body < depth:
      v('C17.traceback', ['frames-missing'],
        '%s at %s depth %d: traceback lacks frames %r (has %d body frames of '
        '%d): %r' % (label, site, depth, real_missing, n_body, depth, frames))
    for base in cls.__mro__:
      if base is object:
        continue
      try:
        try:
          raise caught
        except base:
          pass
      except BaseException:  # pylint: disable=broad-except
        v('C17.except_clause', [family, base.__name__],
          '%s: not caught by `except %s`' % (label, base.__name__))
    obs.append(len(frames))
    lg.add(*obs)

  # --- an exception the interpreter raises for the call itself: a required
  # positional parameter nobody supplies, next to keyword names of any shape
  if not case.get('only'):
    def _nt(a, **kw):
      return a
    _nt.__name__ = _nt.__qualname__ = 'nt'
    nt = gin.configurable('nt', module='ginsim_probes')(_nt)
    for key in ('plain', '{x}', '{}', '{0}', 'a{', '}b'):
      caught = None
      try:
        with gin.config_scope('ntscope'):
          nt(**{key: 1})
      except BaseException as e:  # pylint: disable=broad-except
        caught = e
      lg.add('natural_typeerror', key, type(caught).__name__)
      if not isinstance(caught, TypeError):
        v('C17.same_class', ['TypeError', type(caught).__name__,
                             'missing-argument'],
          'calling nt(**{%r: 1}) without its required parameter `a` reached the '
          'caller as %s: %s (the interpreter raised TypeError)' %
          (key, type(caught).__name__, probes.scrub(str(caught))[:200]))
      elif 'nt' not in str(caught) or 'ntscope' not in str(caught):
        v('C17.message_extended', ['TypeError', 'missing-argument'],
          'nt(**{%r: 1}): message does not name configurable and scope: %s' %
          (key, probes.scrub(str(caught))[:300]))

  # one violation per signature
  seen = set()
  uniq = []
  for x in viol:
    t = tuple(x['sig'])
    if t not in seen:
      seen.add(t)
      uniq.append(x)
  lg.add('viol', sorted(repr(x['sig']) for x in uniq))
  return {
      'violations': uniq,
      'digest': lg.digest(), 'key': lg.digest(),
      'nontrivial': depth >= 2 or site in ('ref_eval', 'macro_ref',
                                           'singleton_ctor', 'scoped_getcfg'),
      'steps': injections,
      'faults': {'exception_injected': injections},
      'ops': {'injections': injections, 'site.' + site: 1,
              'depth.%d' % depth: 1},
      'probes': {'depth_ge3': 1 if depth >= 3 else 0},
      'sample_obs': {'site': site, 'depth': depth,
                     'classes': len(cat)},
  }


def shrinks(case):
  if not case.get('only'):
    for label, _ in catalogue():
      c = copy.deepcopy(case)
      c['only'] = label
      yield c
    return
  if len(case['levels']) > 1:
    for i in range(len(case['levels'])):
      c = copy.deepcopy(case)
      del c['levels'][i]
      yield c
  for i, lv in enumerate(case['levels']):
    if lv['scope']:
      c = copy.deepcopy(case)
      c['levels'][i]['scope'] = ''
      yield c
    if lv['kind'] != 'fn':
      c = copy.deepcopy(case)
      c['levels'][i]['kind'] = 'fn'
      yield c
  if case['site'] != 'fn_body':
    c = copy.deepcopy(case)
    c['site'] = 'fn_body'
    yield c
