"""C20 - clear_config returns the configuration to its pristine state.

An arbitrary prefix history (parse, bind, calls, finalize, unlock, imports,
singleton use, constants incl. overlapping ones defined in interactive mode,
failed operations of every kind) is followed by clear_config(clear_constants=b)
and a suffix history; a fresh twin world with the same registrations (and
constants when b is false) runs the same observations and the same suffix, and
the observation logs must be identical (DESIGN 3/C20).  In a share of runs the
clear races with a thread that reads the operative config under the simulated
scheduler.
"""
import copy
import random

from ginsim import probes, sched, shrink, world

ID = 'C20'
LEVEL = 'exploration'
QUICK_RUNS = 10000
THOROUGH_RUNS = 250000
SHRINK_BUDGET = 250
RULE = ('run i draws from Random("<seed>/C20/<i>") a prefix history of 2-20 '
        'operations over the union alphabet (parse with bindings / macros / '
        'references / imports, programmatic bind incl. non-literal values, '
        'calls under scopes, singleton use, finalize, unlock blocks, constants '
        'with overlapping dotted names defined in and outside interactive mode, '
        'and failing variants of each), then clear_config(clear_constants=b), '
        'then observations and a suffix history of 1-8 operations, all '
        'repeated in a fresh twin world; in 1/4 of the runs the clear runs '
        'concurrently with 1-2 threads reading the operative config under a '
        'seeded schedule. Non-trivial = the prefix left bindings, an operative '
        'record and >=1 of {lock, singleton, import, constant}; distinct = '
        'digest of the event log.')
COMPONENTS = {
    'real': ['gin.config.clear_config', 'constant re-definition path, '
             'SelectorMap.copy/clear', 'everything the histories touch (parse, '
             'bind, wrapper, finalize, singleton, config_str, '
             'operative_config_str)'],
    'simulated': ['fresh process = harness reset + identical registrations',
                  'thread scheduler for clear-vs-reader runs',
                  'virtual import targets'],
    'stub': ['probe configurables'],
}
ASSUMPTIONS = ['registrations and finalize hooks are outside what clear_config '
               'resets (by the property: registered configurables remain)']
CONSTS = ['X', 'a.X', 'b.a.X', 'Y', 'a.Y', 'pi', 'math.pi', 'gin.extra.K']


def _gen_ops(rng, n, uid):
  ops = []
  for _ in range(n):
    r = rng.random()
    uid[0] += 1
    u = uid[0]
    if r < 0.2:
      lines = []
      for _ in range(rng.randint(1, 3)):
        k = rng.random()
        key = '%sf%d.%s' % (rng.choice(['', '', 's1/', 's1/s2/']),
                            rng.randint(0, 1), rng.choice('ab'))
        if k < 0.5:
          lines.append('%s = %d' % (key, u * 10 + len(lines)))
        elif k < 0.65:
          lines.append('%s = @mk()' % key)
        elif k < 0.8:
          lines.append('MAC%d = %d' % (rng.randint(0, 1), u))
          lines.append('%s = %%MAC%d' % (key, rng.randint(0, 1)))
        elif k < 0.9:
          lines.append('%s = %%%s' % (key, rng.choice(CONSTS)))
        else:
          lines.append('import vsim_mods.%s' % rng.choice(['alpha', 'beta']))
      ops.append({'op': 'parse', 'lines': lines})
    elif r < 0.3:
      ops.append({'op': 'bind', 'key': '%sf%d.%s' % (rng.choice(['', 's1/']),
                                                     rng.randint(0, 1),
                                                     rng.choice('ab')),
                  'val': rng.choice([u, 'obj', [u], None])})
    elif r < 0.5:
      ops.append({'op': 'call', 'f': 'f%d' % rng.randint(0, 1),
                  'scope': rng.choice(['', 's1', 's1/s2', 'zz']),
                  'kw': rng.choice([{}, {}, {'a': u}])})
    elif r < 0.58:
      ops.append({'op': 'singleton', 'key': rng.choice(['k1', 'k2']),
                  'how': rng.choice(['scoped_ctor', 'scoped_ctor', 'root_ctor',
                                     'programmatic'])})
    elif r < 0.64:
      ops.append({'op': 'finalize'})
    elif r < 0.7:
      ops.append({'op': 'unlock', 'body': _gen_ops(rng, rng.randint(1, 2), uid),
                  'raises': rng.random() < 0.3})
    elif r < 0.82:
      ops.append({'op': 'constant', 'name': rng.choice(CONSTS),
                  'interactive': rng.random() < 0.5})
    elif r < 0.85:
      # a parse that is interrupted (KeyboardInterrupt-like: not an Exception)
      # while its text is being read
      ops.append({'op': 'interrupted_parse', 'dynamic': rng.random() < 0.6,
                  'at': rng.randint(1, 3), 'val': u})
    elif r < 0.92:
      ops.append({'op': 'bad', 'kind': rng.choice(
          ['bind_unknown', 'parse_syntax', 'parse_unknown', 'call_missing',
           'query_unbound', 'include_missing', 'constant_invalid'])})
    else:
      ops.append({'op': 'observe'})
  return ops


def gen(rng, tier):
  uid = [0]
  prefix = _gen_ops(rng, rng.randint(2, 20 if tier == 'thorough' else 14), uid)
  suffix = _gen_ops(rng, rng.randint(1, 8), uid)
  case = {'prefix': prefix, 'suffix': suffix,
          'clear_constants': rng.random() < 0.4}
  if rng.random() < 0.25:
    case['race'] = {'readers': rng.randint(1, 2),
                    'sched': {'policy': rng.choice(
                        [{'kind': 'rand', 'p': 0.1}, {'kind': 'rand', 'p': 0.4},
                         {'kind': 'target', 'k': 2}, {'kind': 'pct', 'd': 2}]),
                              'seed': rng.getrandbits(32)}}
  return case


class BodyFault(Exception):
  pass


class Interrupt(BaseException):
  """Injected while gin reads the text of a config."""


class _InterruptedText(object):
  """File-like config text whose n-th readline() is interrupted."""

  def __init__(self, lines, at):
    self.lines = [l + '\n' for l in lines]
    self.at = at
    self.n = 0

  def readline(self):
    if self.n == self.at:
      raise Interrupt('interrupted')
    self.n += 1
    return self.lines[self.n - 1] if self.n <= len(self.lines) else ''


class _World:

  def __init__(self):
    gin = world.gin
    self.gin = gin
    self.log = []
    self.constants = []     # (name, label) successfully defined, in order
    self.keys = set()
    self.nobj = [0]
    self.seen_singletons = set()

    def hook(name, named, args, kwargs, self_):
      if name == 'mk':
        self.nobj[0] += 1
        return probes.Tok(self.nobj[0], 'mk')
      return dict(named)
    self.fns = {}
    for i in range(2):
      obj, _ = probes.compile_probe(
          {'name': 'f%d' % i, 'kind': 'fn',
           'params': [{'n': 'a', 'k': 'def', 'd': 'da%d' % i},
                      {'n': 'b', 'k': 'def', 'd': 'db%d' % i}]}, hook)
      self.fns['f%d' % i] = probes.register_probe({'name': 'f%d' % i}, obj)
    mk, _ = probes.compile_probe({'name': 'mk', 'kind': 'fn', 'params': []}, hook)
    self.mk_conf = probes.register_probe({'name': 'mk'}, mk)
    user, _ = probes.compile_probe(
        {'name': 'user', 'kind': 'fn',
         'params': [{'n': 'obj', 'k': 'def', 'd': None}]}, hook)
    self.user = probes.register_probe({'name': 'user'}, user)
    probes.plant_module('vsim_mods.alpha')
    probes.plant_module('vsim_mods.beta')

  def rec(self, *ev):
    self.log.append(probes.stable(ev))

  def attempt(self, label, fn):
    try:
      out = fn()
      self.rec(label, 'ok', out)
      return out
    except Exception as e:  # pylint: disable=broad-except
      self.rec(label, 'exc', type(e).__name__)
      return e

  def define_constant(self, name, label, interactive):
    gin = self.gin
    obj = probes.Tok(0, label)

    def go():
      if interactive:
        with gin.config.interactive_mode():
          gin.constant(name, obj)
      else:
        gin.constant(name, obj)
    out = self.attempt('constant', go)
    if not isinstance(out, Exception):
      self.constants = [c for c in self.constants if c[0] != name]
      self.constants.append((name, label))

  def play(self, ops):
    gin = self.gin
    for op in ops:
      k = op['op']
      if k == 'parse':
        for line in op['lines']:
          if ' = ' in line and '.' in line.split(' = ')[0]:
            self.keys.add(line.split(' = ')[0])
        self.attempt('parse', lambda: (gin.parse_config(op['lines']), None)[1])
      elif k == 'bind':
        self.keys.add(op['key'])
        val = probes.Tok(0, 'bound-object') if op['val'] == 'obj' else op['val']
        self.attempt('bind', lambda: gin.bind_parameter(op['key'], val))
      elif k == 'call':
        def go():
          sc = op['scope'].split('/') if op['scope'] else None
          with gin.config_scope(sc):
            return self.fns[op['f']](**op['kw'])
        self.attempt('call', go)
      elif k == 'singleton':
        def go():
          how = op.get('how', 'scoped_ctor')
          if how == 'programmatic':
            got = gin.config.singleton_value(op['key'], self.mk_conf)
          else:
            gin.parse_config(['user.obj = @%s/gin.singleton()' % op['key'],
                              # the constructor is bound under the key's scope or,
                              # inherited, at the root
                              ('%s/gin.singleton.constructor = @mk' % op['key'])
                              if how == 'scoped_ctor' else
                              'gin.singleton.constructor = @mk'])
            got = self.user()['obj']
          serial = getattr(got, 'serial', None)
          fresh = serial not in self.seen_singletons
          self.seen_singletons.add(serial)
          return ('singleton', 'constructed-now' if fresh else 'cached')
        self.attempt('singleton', go)
      elif k == 'interrupted_parse':
        if op['dynamic']:
          lines = ['from __gin__ import dynamic_registration',
                   'import vsim_mods.alpha', 'import vsim_mods.beta as bb', '']
        else:
          lines = ['f0.a = %d' % op['val'], 'import vsim_mods.alpha',
                   'f1.b = %d' % op['val'], '']
          self.keys.update(['f0.a', 'f1.b'])

        def go():
          try:
            gin.parse_config(_InterruptedText(lines, op['at']))
          except Interrupt:
            return 'interrupted'
          return 'completed'
        self.attempt('interrupted_parse', go)
      elif k == 'finalize':
        self.attempt('finalize', gin.finalize)
      elif k == 'unlock':
        def go():
          with gin.unlock_config():
            self.play(op['body'])
            if op['raises']:
              raise BodyFault('x')
        self.attempt('unlock', go)
      elif k == 'constant':
        self.define_constant(op['name'], 'c:' + op['name'], op['interactive'])
      elif k == 'bad':
        kind = op['kind']
        if kind == 'bind_unknown':
          self.attempt('bad', lambda: gin.bind_parameter('f0.nope', 1))
        elif kind == 'parse_syntax':
          self.attempt('bad', lambda: gin.parse_config('f0.a = [1,'))
        elif kind == 'parse_unknown':
          self.attempt('bad', lambda: gin.parse_config(['f0.b = 77',
                                                        'ghost.x = 1']))
          self.keys.add('f0.b')
        elif kind == 'call_missing':
          self.attempt('bad', lambda: self.fns['f0'](gin.REQUIRED))
        elif kind == 'query_unbound':
          self.attempt('bad', lambda: gin.query_parameter('f1.a'))
        elif kind == 'include_missing':
          self.attempt('bad', lambda: gin.parse_config(
              ["f1.b = 78", "include '/nowhere/missing.gin'"]))
          self.keys.add('f1.b')
        else:
          self.attempt('bad', lambda: gin.constant('not valid', 1))
      elif k == 'observe':
        self.observe()

  def observe(self, keys=None):
    gin = self.gin
    self.attempt('config_str', gin.config_str)
    self.attempt('operative', gin.operative_config_str)
    self.rec('locked', gin.config_is_locked())
    for key in sorted(keys if keys is not None else self.keys):
      self.attempt('query ' + key, lambda: gin.query_parameter(key))
    for f in sorted(self.fns):
      for sc in (None, ['s1', 's2']):
        def go():
          with gin.config_scope(sc):
            return self.fns[f]()
        self.attempt('call ' + f, go)
    for key in ('k1', 'k2'):
      self.attempt('singleton_value ' + key,
                   lambda: gin.config.singleton_value(key))


def _constant_lookup(w):
  """Looks every constant name up (by query_parameter, which resolves bare
  constant names) without touching the configuration."""
  for c in CONSTS:
    w.attempt('constant ' + c, lambda: w.gin.query_parameter(c))
  w.attempt('constant REQUIRED',
            lambda: w.gin.query_parameter('gin.REQUIRED') is w.gin.REQUIRED)


def run(case):
  gin = world.gin
  viol = []
  lg = probes.Log()

  def v(oracle, disc, msg):
    viol.append({'oracle': oracle, 'sig': [ID, oracle] + list(disc), 'msg': msg})

  # ---- world A: prefix, clear ------------------------------------------------
  world.reset()
  a = _World()
  a.play(case['prefix'])
  pre = {'bindings': bool(getattr(world.config, '_CONFIG', {})),
         'operative': bool(getattr(world.config, '_OPERATIVE_CONFIG', {})),
         'locked': gin.config_is_locked(),
         'singletons': bool(getattr(world.config, '_SINGLETONS', {})),
         'imports': bool(getattr(world.config, '_IMPORTS', set())),
         'constants': len(a.constants)}
  keys = set(a.keys)
  constants = list(a.constants)
  prefix_len = len(a.log)
  race = case.get('race')
  sched_info = None
  exc = None
  if race:
    s = sched.Sched(random.Random(race['sched']['seed']), race['sched']['policy'],
                    replay=race['sched'].get('replay'), length_hint=400)
    outcome = {}

    def clearer():
      try:
        gin.clear_config(clear_constants=case['clear_constants'])
      except Exception as e:  # pylint: disable=broad-except
        outcome['exc'] = e

    def reader():
      try:
        gin.operative_config_str()
      except Exception as e:  # pylint: disable=broad-except
        outcome['reader_exc'] = e
    s.spawn(clearer)
    for _ in range(race['readers']):
      s.spawn(reader)
    s.run()
    exc = outcome.get('exc')
    if s.failure is not None:
      v('C20.clear_succeeds', ['deadlock-or-cap', type(s.failure).__name__],
        str(s.failure))
    # A reader that fails while clear_config runs concurrently is not judged:
    # neither C20 (histories) nor C18 (calls and reads) promises anything for a
    # read racing with a clear.  Only the state the clear leaves behind is.
    sched_info = {'yields': s.yields, 'switches': len(s.switch_log),
                  'digest': s.digest(), 'record': s.record()}
  else:
    try:
      gin.clear_config(clear_constants=case['clear_constants'])
    except Exception as e:  # pylint: disable=broad-except
      exc = e
  if exc is not None:
    kind = 'overlapping-constants' if 'Constants matching' in str(exc) else 'other'
    v('C20.clear_succeeds', [type(exc).__name__, kind],
      'clear_config(clear_constants=%r) raised %s: %s (constants defined: %r)' %
      (case['clear_constants'], type(exc).__name__,
       probes.scrub(str(exc))[:300], constants))
  a.log = []
  a.keys = set(keys)
  a.observe()
  _constant_lookup(a)
  a.play(case['suffix'])
  a.observe()
  log_a = a.log

  # ---- world B: fresh twin -----------------------------------------------------
  world.reset()
  b = _World()
  if not case['clear_constants']:
    for name, label in constants:
      b.define_constant(name, label, True)
  b.log = []
  b.keys = set(keys)
  b.observe()
  _constant_lookup(b)
  b.play(case['suffix'])
  b.observe()
  log_b = b.log

  # Object serials differ between the worlds (A constructed objects during the
  # prefix); compare with serial numbers masked.
  import re
  mask = re.compile(r'#\d+')
  la = [mask.sub('#n', x) for x in log_a]
  lb = [mask.sub('#n', x) for x in log_b]
  if la != lb and not viol:
    first = next(i for i in range(min(len(la), len(lb)) + 1)
                 if i >= len(la) or i >= len(lb) or la[i] != lb[i])
    where = 'right after the clear' if first < 40 else 'during the suffix'
    what = (la[first] if first < len(la) else '<end>')
    label = what.split(',')[0].strip("('\"")
    v('C20.indistinguishable_from_fresh', [label.split(' ')[0]],
      'observation %d differs from the fresh twin (%s):\n cleared world: %s\n '
      'fresh world  : %s' % (first, where, what[:600],
                             (lb[first] if first < len(lb) else '<end>')[:600]))
  lg.add('prefix', len(case['prefix']), prefix_len)
  lg.add('A', la)
  if sched_info:
    lg.add('sched', sched_info['record'])
  lg.add('viol', sorted(repr(x['sig']) for x in viol))
  nontrivial = pre['bindings'] and pre['operative'] and (
      pre['locked'] or pre['singletons'] or pre['imports'] or
      pre['constants'] > 0)
  res = {
      'violations': viol, 'digest': lg.digest(), 'key': lg.digest(),
      'nontrivial': bool(nontrivial),
      'steps': len(la) + prefix_len,
      'ops': {'prefix_ops': len(case['prefix']), 'suffix_ops': len(case['suffix']),
              'clear_constants_true': 1 if case['clear_constants'] else 0},
      'faults': {'failed_ops_in_prefix': sum(1 for o in case['prefix']
                                             if o['op'] == 'bad'),
                 'parse_interrupted_while_reading': sum(
                     1 for o in case['prefix'] + case['suffix']
                     if o['op'] == 'interrupted_parse'),
                 'preemption': sched_info['switches'] if sched_info else 0},
      'probes': {'prefix_left_lock': int(pre['locked']),
                 'prefix_left_singletons': int(pre['singletons']),
                 'prefix_left_imports': int(pre['imports']),
                 'prefix_left_constants': int(pre['constants'] > 0),
                 'clear_raced_with_reader': 1 if race else 0},
      'sample_obs': la[:6],
  }
  if sched_info:
    res['sched'] = {'yields': sched_info['yields'],
                    'switches': sched_info['switches'],
                    'digest': sched_info['digest']}
    res['sched_records'] = [sched_info['record']]
  return res


def freeze(case, res):
  case = copy.deepcopy(case)
  rec = (res.get('sched_records') or [None])[0]
  if rec and case.get('race'):
    case['race']['sched']['replay'] = rec
  return case


def shrinks(case):
  if case.get('race'):
    c = copy.deepcopy(case)
    del c['race']
    yield c
  yield from shrink.tree_shrinks(case, {'prefix', 'suffix', 'body', 'lines'},
                                 allow_empty=True)
  if case.get('race') and case['race']['sched'].get('replay'):
    sw = case['race']['sched']['replay']['switches']
    for cut in shrink.list_cuts(sw):
      c = copy.deepcopy(case)
      c['race']['sched']['replay']['switches'] = cut
      yield c
