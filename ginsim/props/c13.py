"""C13 - registration is transparent to the registered function or class.

Registration histories over a swarm of callable kinds and class shapes x
{configurable, register, external_configurable} x {plain, scoped access},
interleaved with invalid registrations and interactive_mode() blocks whose body
re-registers and then returns or raises.  An unregistered twin compiled from the
same source is the oracle for "untouched"; the registry-unchanged-after-
rejection check is the fault facet (DESIGN 3/C13).
"""
import copy
import inspect
import pickle
import sys
import types

from ginsim import probes, shrink, world

ID = 'C13'
LEVEL = 'exploration'
QUICK_RUNS = 12000
THOROUGH_RUNS = 300000
SHRINK_BUDGET = 200
RULE = ('run i draws from Random("<seed>/C13/<i>") a history of 2-10 '
        'registrations over 15 callable / class shapes (function, builtin, '
        'method wrapper, callable object with value equality, class with '
        '__init__ / __new__ / both / neither, custom metaclass, __slots__, '
        'namedtuple, abstract base, class with a registered method, class '
        'holding a registered foreign function as attribute, dataclass) x 3 '
        'registration APIs, bindings for them, invalid registrations of 7 '
        'kinds and interactive_mode blocks (returning or raising) around '
        're-registrations. Non-trivial = >=1 class registered through register '
        '/ external_configurable with bindings present and >=1 rejected '
        'registration; distinct = digest of the event log.')
COMPONENTS = {
    'real': ['_make_configurable, _decorate_fn_or_cls, metaclass call wrapper, '
             '_find_registered_methods, _ensure_wrappability', 'interactive_mode',
             'get_configurable / references / scoped wrappers', 'pickle of '
             'instances'],
    'simulated': ['rejected registrations and raising interactive bodies as '
                  'faults'],
    'stub': ['generated classes and functions planted in a virtual module'],
}
ASSUMPTIONS = ['single caller thread; CPython 3.12']

SHAPES = ['fn', 'builtin', 'method_wrapper', 'callable_obj', 'cls_init',
          'cls_new', 'cls_both', 'cls_neither', 'cls_meta', 'cls_slots',
          'namedtuple', 'abstract', 'cls_regmethod', 'cls_fn_attr', 'dataclass',
          'fn_wraps_registered']
APIS = ['configurable', 'register', 'external']
MOD = 'ginsim_c13_mod'

SRC = {
    'fn': '''
def {n}(a=1, b=2):
  """doc of {n}"""
  return ('{n}', a, b)
''',
    'cls_init': '''
class {n}:
  """doc of {n}"""
  def __init__(self, a=1, b=2):
    self.a, self.b = a, b
  def extra(self, scale=1):
    return ('extra', scale)
''',
    'cls_new': '''
class {n}:
  """doc of {n}"""
  def __new__(cls, a=1, b=2):
    self = super().__new__(cls)
    self.a, self.b = a, b
    return self
''',
    'cls_both': '''
class {n}:
  """doc of {n}"""
  def __new__(cls, *args, **kwargs):
    return super().__new__(cls)
  def __init__(self, a=1, b=2):
    self.a, self.b = a, b
''',
    'cls_neither': '''
class {n}_base:
  def __init__(self, a=1, b=2):
    self.a, self.b = a, b
class {n}({n}_base):
  """doc of {n}"""
''',
    'cls_meta': '''
class {n}_meta(type):
  def __call__(cls, *args, **kwargs):
    inst = super().__call__(*args, **kwargs)
    inst.via_meta = True
    return inst
class {n}(metaclass={n}_meta):
  """doc of {n}"""
  def __init__(self, a=1, b=2):
    self.a, self.b = a, b
''',
    'cls_slots': '''
class {n}:
  """doc of {n}"""
  __slots__ = ('a', 'b')
  def __init__(self, a=1, b=2):
    self.a, self.b = a, b
''',
    'namedtuple': '''
import collections
{n} = collections.namedtuple('{n}', ['a', 'b'], defaults=(1, 2))
{n}.__doc__ = 'doc of {n}'
''',
    'abstract': '''
import abc
class {n}_abc(abc.ABC):
  def __init__(self, a=1, b=2):
    self.a, self.b = a, b
  @abc.abstractmethod
  def run(self):
    pass
class {n}({n}_abc):
  """doc of {n}"""
  def run(self):
    return self.a
''',
    'cls_regmethod': '''
class {n}:
  """doc of {n}"""
  def __init__(self, a=1, b=2):
    self.a, self.b = a, b
  def meth(self, m=5):
    return ('meth', m)
''',
    'cls_fn_attr': '''
class {n}_helpers:
  @staticmethod
  def {n}_helper(h=7):
    return ('helper', h)
class {n}:
  """doc of {n}"""
  {n}_helper = {n}_helpers.{n}_helper
  def __init__(self, a=1, b=2):
    self.a, self.b = a, b
''',
    'fn_wraps_registered': '''
import functools
def {n}_inner(a=1, b=2):
  """doc of the inner function"""
  return ('{n}_inner', a, b)
def {n}_deco(f):
  @functools.wraps(f)
  def wrapper(a=1, b=2):
    return ('{n}',) + f(a, b)[1:]
  return wrapper
{n} = {n}_deco({n}_inner)
{n}.__name__ = {n}.__qualname__ = '{n}'
{n}.__doc__ = 'doc of {n}'
''',
    'dataclass': '''
import dataclasses
@dataclasses.dataclass
class {n}:
  """doc of {n}"""
  a: int = 1
  b: int = 2
''',
    'callable_obj': '''
class {n}_type:
  """callable object type"""
  def __init__(self, tag):
    self.tag = tag
  def __call__(self, a=1, b=2):
    return ('{n}', a, b)
  def __eq__(self, other):
    return isinstance(other, {n}_type)
  def __hash__(self):
    return 7
{n} = {n}_type('first')
{n}.__name__ = '{n}'
{n}_equal = {n}_type('second')
{n}_equal.__name__ = '{n}'
''',
}


def gen(rng, tier):
  ops = []
  n = rng.randint(2, 10 if tier == 'thorough' else 7)
  for i in range(n):
    shape = rng.choice(SHAPES)
    api = rng.choice(APIS)
    if shape in ('builtin', 'method_wrapper'):
      api = 'external'
    ops.append({'op': 'register', 'name': 'T%d' % i, 'shape': shape, 'api': api,
                'bind': rng.random() < 0.8,
                'scoped': rng.random() < 0.5})
    r = rng.random()
    if r < 0.35:
      ops.append({'op': 'invalid', 'kind': rng.choice(
          ['bad_name', 'bad_module', 'duplicate_other', 'duplicate_equal',
           'unknown_in_list', 'both_lists', 'non_list',
           'class_with_regmethod_bad_list', 'rejected_then_new',
           'duplicate_after_stray_exit', 'plain_class_bad_list',
           'bound_method_self_in_list']),
                  'n': i,
                  'target': 'T%d' % rng.randint(0, i)})
    elif r < 0.62 and r >= 0.55:
      # a dynamic-registration text configures a (not registered) method of a
      # registered class, which makes gin register the class once more
      ops.append({'op': 'dyn_method', 'target': 'T%d' % rng.randint(0, i)})
    elif r < 0.55:
      ops.append({'op': 'interactive', 'target': 'T%d' % rng.randint(0, i),
                  'raises': rng.random() < 0.5,
                  'base_exc': rng.random() < 0.3,
                  'how': rng.choice(['with', 'with', 'enter_exit'])})
  return {'ops': ops}


def _registry_view(gin, names):
  """What the registry answers for every name (used for atomicity checks)."""
  out = {}
  for n in names:
    for q in (n, MOD + '.' + n):
      try:
        out[q] = gin.get_configurable(q)
      except Exception as e:  # pylint: disable=broad-except
        out[q] = 'EXC ' + type(e).__name__
  return out


def run(case):
  gin = world.gin
  world.reset()
  log = probes.Log()
  viol = []
  stats = {'class_via_register_with_binding': 0, 'rejected': 0,
           'interactive_raise': 0, 'pickled': 0, 'exact_type': 0}

  def v(oracle, disc, msg):
    if len(viol) < 14:
      viol.append({'oracle': oracle, 'sig': [ID, oracle] + list(disc),
                   'msg': msg})

  mod = types.ModuleType(MOD)
  sys.modules[MOD] = mod
  twin_mod = types.ModuleType(MOD + '_twin')
  registered = {}      # name -> dict(obj, conf, shape, api)
  all_names = []
  extra_names = []

  def build(name, shape, target_mod):
    if shape == 'builtin':
      return sum
    if shape == 'method_wrapper':
      return [].__len__.__class__ and object().__str__
    g = {'__name__': target_mod.__name__}
    exec(compile(SRC[shape].format(n=name), '<c13 %s>' % name, 'exec'), g)  # pylint: disable=exec-used
    for k, val in g.items():
      if not k.startswith('__'):
        setattr(target_mod, k, val)
    return g[name]

  def call_result(obj, shape, *a, **k):
    out = obj(*a, **k)
    if shape in ('fn', 'callable_obj', 'fn_wraps_registered'):
      return out
    if shape in ('builtin', 'method_wrapper'):
      return out
    if shape == 'namedtuple':
      return ('inst', out.a, out.b)
    return ('inst', getattr(out, 'a', None), getattr(out, 'b', None))

  for op in case['ops']:
    k = op['op']
    if k == 'register':
      name, shape, api = op['name'], op['shape'], op['api']
      obj = build(name, shape, mod)
      twin = build(name, shape, twin_mod)
      before_vars = dict(vars(obj)) if isinstance(obj, type) else None
      if shape == 'cls_regmethod':
        obj.meth = gin.register(obj.meth)
      if shape == 'cls_fn_attr':
        gin.register(getattr(obj, name + '_helper'))
      if shape == 'fn_wraps_registered':
        # an ordinary functools.wraps decorator around a function that is a
        # configurable in its own right
        gin.register(getattr(mod, name + '_inner'))
      kw = {}
      if shape in ('builtin', 'method_wrapper'):
        kw = {'name': name, 'module': MOD}
      exc = None
      conf = None
      try:
        if api == 'configurable':
          conf = gin.configurable(obj)
        elif api == 'register':
          ret = gin.register(obj)
          if ret is not obj:
            v('C13.register_returns_original', [shape],
              'gin.register(%s) returned %r, not the original' % (name, ret))
          conf = gin.get_configurable(obj)
        else:
          conf = gin.external_configurable(obj, **kw)
      except Exception as e:  # pylint: disable=broad-except
        exc = e
      log.add('register', name, shape, api, type(exc).__name__ if exc else None)
      if exc is not None:
        v('C13.registration_accepted', [shape, api, type(exc).__name__],
          'registering %s (%s) through %s raised %s: %s' %
          (name, shape, api, type(exc).__name__, probes.scrub(str(exc))[:300]))
        continue
      registered[name] = {'obj': obj, 'conf': conf, 'shape': shape, 'api': api,
                          'twin': twin}
      all_names.append(name)
      has_params = shape not in ('builtin', 'method_wrapper')
      if op['bind'] and has_params:
        try:
          gin.bind_parameter('%s.a' % name, 'bound-a')
          if op['scoped']:
            gin.bind_parameter('sc/%s.b' % name, 'bound-b')
        except Exception as e:  # pylint: disable=broad-except
          v('C13.registration_accepted', [shape, api, 'bind'],
            'binding %s.a raised %r' % (name, e))
          continue
      # (3) metadata of what configurable / external returned
      if api in ('configurable', 'external') and shape not in (
          'builtin', 'method_wrapper', 'callable_obj'):
        for attr in ('__name__', '__doc__'):
          if getattr(conf, attr, None) != getattr(twin, attr, None):
            v('C13.metadata', [shape, api, attr],
              '%s: configurable.%s is %r, original has %r' %
              (name, attr, getattr(conf, attr, None), getattr(twin, attr, None)))
        try:
          if not isinstance(conf, type) and \
              str(inspect.signature(conf)) != str(inspect.signature(twin)):
            v('C13.metadata', [shape, api, 'signature'],
              '%s: signature %s, original %s' %
              (name, inspect.signature(conf), inspect.signature(twin)))
        except (TypeError, ValueError):
          pass
      if not has_params:
        continue
      # (1) register / external never alter the original
      if api in ('register', 'external'):
        if isinstance(obj, type):
          after_vars = dict(vars(obj))
          if shape == 'cls_regmethod':
            before_vars.pop('meth', None)
            after_vars.pop('meth', None)
          if set(after_vars) != set(before_vars) or any(
              after_vars[x] is not before_vars[x] for x in before_vars
              if x not in ('__dict__', '__weakref__')):
            v('C13.original_untouched', [shape, api, 'vars'],
              '%s: class attributes changed by %s: %r' %
              (name, api, sorted(set(after_vars) ^ set(before_vars)) or
               [x for x in before_vars if after_vars.get(x) is not
                before_vars[x]]))
        try:
          direct = call_result(obj, shape)
          want = call_result(twin, shape)
          if direct != want:
            v('C13.original_untouched', [shape, api, 'direct-call'],
              '%s: a direct call of the original gives %r, the untouched twin '
              'gives %r (bindings must not be injected)' % (name, direct, want))
        except Exception as e:  # pylint: disable=broad-except
          v('C13.original_untouched', [shape, api, type(e).__name__],
            '%s: direct call raised %r' % (name, e))
        if isinstance(obj, type) and op['bind']:
          stats['class_via_register_with_binding'] += 1
      # (2) the registry's version receives the bindings
      if op['bind']:
        routes = {'selector': lambda: gin.get_configurable(name),
                  'original': lambda: gin.get_configurable(obj)}
        if api != 'register':
          routes['returned'] = lambda: conf
        for rname, route in sorted(routes.items()):
          try:
            got = call_result(route(), shape)
          except Exception as e:  # pylint: disable=broad-except
            v('C13.registry_version_configured', [shape, api, rname,
                                                  type(e).__name__],
              '%s via %s raised %s: %s' % (name, rname, type(e).__name__,
                                           probes.scrub(str(e))[:200]))
            continue
          if got[1] != 'bound-a':
            v('C13.registry_version_configured', [shape, api, rname],
              '%s via %s received a=%r, expected the bound value' %
              (name, rname, got[1]))
        if op['scoped']:
          try:
            got = call_result(gin.get_configurable('sc/' + name), shape)
            if got[1:] != ('bound-a', 'bound-b'):
              v('C13.registry_version_configured', [shape, api, 'scoped'],
                "%s via 'sc/%s' received %r" % (name, name, got))
          except Exception as e:  # pylint: disable=broad-except
            v('C13.registry_version_configured', [shape, api, 'scoped',
                                                  type(e).__name__],
              "%s via 'sc/%s' raised %r" % (name, name, e))
      # (4) class wrappers
      if isinstance(obj, type):
        for label, cv in (('plain', lambda: gin.get_configurable(name)),
                          ('scoped', lambda: gin.get_configurable('sc/' + name))):
          try:
            cls = cv()
            if not (isinstance(cls, type) and issubclass(cls, obj)):
              v('C13.class_wrapper', [shape, api, label, 'not-subclass'],
                '%s: %s configurable version %r is not a subclass' %
                (name, label, cls))
              continue
            for attr in ('__name__', '__module__', '__doc__'):
              if getattr(cls, attr) != getattr(obj, attr):
                v('C13.class_wrapper', [shape, api, label, attr],
                  '%s: %s version has %s=%r, original %r' %
                  (name, label, attr, getattr(cls, attr), getattr(obj, attr)))
            inst = cls()
            if not isinstance(inst, obj):
              v('C13.class_wrapper', [shape, api, label, 'not-instance'],
                '%s: instance %r is not an instance of the original' %
                (name, inst))
            exact_expected = shape != 'cls_regmethod'
            if exact_expected:
              if type(inst) is not obj:
                v('C13.exact_type', [shape, api, label],
                  '%s: type(instance) is %r, expected exactly the original '
                  'class (no registered methods to override)' %
                  (name, type(inst)))
              else:
                stats['exact_type'] += 1
                twin_ok = True
                try:
                  pickle.dumps(obj())
                except Exception:  # pylint: disable=broad-except
                  twin_ok = False
                if twin_ok:
                  try:
                    back = pickle.loads(pickle.dumps(inst))
                    stats['pickled'] += 1
                    if type(back) is not obj:
                      v('C13.pickle', [shape, api, label, 'type'],
                        '%s: unpickled %r' % (name, type(back)))
                  except Exception as e:  # pylint: disable=broad-except
                    v('C13.pickle', [shape, api, label, type(e).__name__],
                      '%s: instance does not pickle although the original '
                      'does: %r' % (name, e))
          except Exception as e:  # pylint: disable=broad-except
            v('C13.class_wrapper', [shape, api, label, type(e).__name__],
              '%s: %s version raised %s: %s' %
              (name, label, type(e).__name__, probes.scrub(str(e))[:200]))
    elif k == 'invalid':
      if op['target'] not in registered:
        continue
      t = registered[op['target']]
      kind = op['kind']
      before = _registry_view(gin, all_names + ['bad name', 'Zq'])

      def fresh_fn(nm):
        g = {'__name__': MOD}
        exec('def %s(a=1):\n  return a\n' % nm, g)  # pylint: disable=exec-used
        return g[nm]
      exc = None
      try:
        if kind == 'bad_name':
          gin.external_configurable(
              fresh_fn('Zq'),
              name=['bad name', 'Zq_nl\n', '1Zq', 'Zq.'][op['n'] % 4])
        elif kind == 'bad_module':
          gin.external_configurable(
              fresh_fn('Zq'), name='Zq',
              module=['bad..mod', 'some.mod\n', 'a b'][op['n'] % 3])
        elif kind == 'duplicate_other':
          gin.external_configurable(fresh_fn(op['target']), name=op['target'],
                                    module=MOD)
        elif kind == 'bound_method_self_in_list':
          # a bound method has no parameter `self` (its plain function, which is
          # registered first, has)
          gb = {'__name__': MOD}
          exec('class ZqHolder:\n'  # pylint: disable=exec-used
               '  def m(self, x=1):\n    return x\n', gb)
          try:
            gin.external_configurable(gb['ZqHolder'].m,
                                      name='ZqPlain%d' % op['n'], module=MOD)
          except Exception:  # pylint: disable=broad-except
            pass
          gin.external_configurable(gb['ZqHolder']().m, name='Zq', module=MOD,
                                    denylist=['self'])
        elif kind == 'plain_class_bad_list':
          # a class with neither __init__ nor __new__ has no parameters a list
          # could name
          gp = {'__name__': MOD}
          exec('class Zq:\n  pass\n', gp)  # pylint: disable=exec-used
          gin.external_configurable(gp['Zq'], name='Zq', module=MOD,
                                    denylist=['bogus'])
        elif kind == 'duplicate_after_stray_exit':
          # leaving interactive mode while not in it (a defensive exit) does not
          # turn it on
          gin.exit_interactive_mode()
          gin.external_configurable(fresh_fn(op['target']), name=op['target'],
                                    module=MOD)
        elif kind == 'duplicate_equal':
          if t['shape'] != 'callable_obj':
            continue
          gin.external_configurable(getattr(mod, op['target'] + '_equal'),
                                    name=op['target'], module=MOD)
        elif kind == 'unknown_in_list':
          gin.external_configurable(fresh_fn('Zq'), name='Zq',
                                    allowlist=['a', 'nope'])
        elif kind == 'rejected_then_new':
          # A registration is rejected after gin has looked at the signature;
          # the function is dropped and another one is created right away
          # (CPython hands it the same memory): its list must be checked
          # against ITS signature.
          import gc
          g1 = {'__name__': MOD}
          exec('def Zq(y=1, z=2):\n  return y\n', g1)  # pylint: disable=exec-used
          try:
            gin.external_configurable(g1.pop('Zq'), name='Zq', allowlist=['nope'])
          except Exception:  # pylint: disable=broad-except
            pass
          g1.clear()
          gc.collect()
          g2 = {'__name__': MOD}
          exec('def Zq(a=1, b=2):\n  return a\n', g2)  # pylint: disable=exec-used
          gin.external_configurable(g2['Zq'], name='Zq', allowlist=['y'])
        elif kind == 'class_with_regmethod_bad_list':
          # A class whose method is registered already; the class registration
          # is rejected for its list and must leave the method where it was.
          gk = {'__name__': MOD}
          mname = 'zmeth%d' % op.get('n', 0)
          exec('class ZqK%d:\n  def __init__(self, a=1):\n    self.a = a\n'  # pylint: disable=exec-used
               '  def %s(self, m=5):\n    return m\n' % (op.get('n', 0), mname),
               gk)
          zk = gk['ZqK%d' % op.get('n', 0)]
          setattr(zk, mname, gin.register(getattr(zk, mname)))
          extra_names.append(mname)
          before = _registry_view(gin, all_names + ['bad name', 'Zq'] +
                                  extra_names)
          gin.external_configurable(zk, allowlist=['a', 'nope'])
        elif kind == 'both_lists':
          gin.external_configurable(fresh_fn('Zq'), name='Zq', allowlist=['a'],
                                    denylist=['a'])
        else:
          gin.external_configurable(fresh_fn('Zq'), name='Zq', allowlist='a')
      except Exception as e:  # pylint: disable=broad-except
        exc = e
      stats['rejected'] += 1
      log.add('invalid', kind, type(exc).__name__ if exc else None)
      if exc is None:
        v('C13.invalid_rejected', [kind],
          'invalid registration (%s, target %s) was accepted' %
          (kind, op['target']))
      after = _registry_view(gin, all_names + ['bad name', 'Zq'] + extra_names)
      changed = [q for q in before if q in after and
                 before[q] is not after[q] and before[q] != after[q]]
      if changed:
        v('C13.rejection_atomic', [kind],
          'after the rejected registration (%s) the registry answers '
          'differently for %r' % (kind, changed))
    elif k == 'dyn_method':
      t = registered.get(op['target'])
      if t is None or t['shape'] != 'cls_init' or \
          t['api'] not in ('register', 'external'):
        continue
      name = op['target']
      obj = t['obj']
      before_vars = dict(vars(obj))
      exc = None
      try:
        gin.parse_config(['from __gin__ import dynamic_registration',
                          'import %s as dm' % MOD,
                          'dm.%s.extra.scale = 3' % name])
      except Exception as e:  # pylint: disable=broad-except
        exc = e
      log.add('dyn_method', name, type(exc).__name__ if exc else None)
      if exc is not None:
        v('C13.registration_accepted', ['dyn_method', type(exc).__name__],
          'configuring %s.extra through dynamic registration raised %s: %s' %
          (name, type(exc).__name__, probes.scrub(str(exc))[:300]))
        continue
      after_vars = dict(vars(obj))
      changed = sorted(set(after_vars) ^ set(before_vars)) or [
          x for x in before_vars if after_vars.get(x) is not before_vars[x]
          and x not in ('__dict__', '__weakref__')]
      if changed:
        v('C13.original_untouched', ['cls_init', t['api'], 'dyn-method-vars'],
          '%s (registered with %s): class attributes %r changed when a '
          'dynamic-registration text configured its method `extra`' %
          (name, t['api'], changed))
      try:
        direct = call_result(obj, 'cls_init')
        want = call_result(t['twin'], 'cls_init')
        if direct != want:
          v('C13.original_untouched', ['cls_init', t['api'], 'dyn-method-call'],
            '%s: after a dynamic-registration text configured its method, a '
            'direct call of the original gives %r, the untouched twin %r' %
            (name, direct, want))
        if obj().extra() != ('extra', 1):
          v('C13.original_untouched', ['cls_init', t['api'], 'dyn-method-meth'],
            '%s: the original class\'s own method received an injected value: '
            '%r' % (name, obj().extra()))
        inst = gin.get_configurable(obj)()
        if inst.extra() != ('extra', 3):
          v('C13.registry_version_configured', ['dyn-method'],
            '%s: the registry\'s version does not apply extra.scale = 3: %r' %
            (name, inst.extra()))
      except Exception as e:  # pylint: disable=broad-except
        v('C13.original_untouched', ['cls_init', t['api'], type(e).__name__],
          '%s: calls after the dynamic method configuration raised %r' %
          (name, e))
    elif k == 'interactive':
      if op['target'] not in registered:
        continue
      t = registered[op['target']]
      if t['shape'] in ('builtin', 'method_wrapper'):
        continue
      name = op['target']

      def other(nm):
        g = {'__name__': MOD}
        exec('def %s(a=1, b=2):\n  return (%r, a, b)\n' % (nm, nm), g)  # pylint: disable=exec-used
        return g[nm]

      class Boom(BaseException if op.get('base_exc') else Exception):
        pass
      exc = None
      inside_exc = None
      try:
        if op['how'] == 'with':
          with gin.config.interactive_mode():
            try:
              gin.external_configurable(other(name), name=name, module=MOD)
            except Exception as e:  # pylint: disable=broad-except
              inside_exc = e
            if op['raises']:
              stats['interactive_raise'] += 1
              raise Boom()
        else:
          gin.enter_interactive_mode()
          try:
            gin.external_configurable(other(name), name=name, module=MOD)
          except Exception as e:  # pylint: disable=broad-except
            inside_exc = e
          gin.exit_interactive_mode()
      except Boom as e:
        exc = e
      log.add('interactive', name, op['raises'],
              type(inside_exc).__name__ if inside_exc else None)
      if inside_exc is not None:
        v('C13.interactive_allows', [type(inside_exc).__name__],
          're-registering %s inside interactive mode raised %s: %s' %
          (name, type(inside_exc).__name__,
           probes.scrub(str(inside_exc))[:200]))
      else:
        # the displaced object is no longer "the original object" of that name:
        # looking it up must not lead to the newcomer's configurable version
        if t.get('obj') is not None:
          try:
            via_old = gin.get_configurable(t['obj'])
            out = via_old()
          except Exception:  # pylint: disable=broad-except
            out = None      # "not registered" (or not callable bare): fine
          if isinstance(out, tuple) and len(out) == 3 and out[0] == name:
            v('C13.registry_version_configured',
              ['displaced-object-reaches-newcomer'],
              'after another function took the name of %s in interactive '
              'mode, get_configurable(<the displaced object>)() calls the '
              'newcomer: %r' % (name, out))
        registered[name] = {'obj': None, 'conf': None, 'shape': 'replaced',
                            'api': 'external', 'twin': None}
        for q in (name, 'sc/' + name):
          try:
            out = gin.get_configurable(q)()
            if not (isinstance(out, tuple) and out[0] == name):
              v('C13.registry_version_configured',
                ['after-reregistration', 'scoped' if '/' in q else 'plain'],
                'after re-registering %s in interactive mode, '
                'get_configurable(%r)() still reaches the old object: %r' %
                (name, q, out))
          except Exception as e:  # pylint: disable=broad-except
            v('C13.registry_version_configured',
              ['after-reregistration', type(e).__name__],
              'get_configurable(%r)() after re-registration raised %r' % (q, e))
      # after the block (left by either path) re-registration is rejected again
      try:
        gin.external_configurable(other(name), name=name, module=MOD)
        v('C13.interactive_ends', ['exception' if op['raises'] else 'return'],
          'after leaving the interactive block by %s, a different object was '
          'registered under the existing name %s without an error' %
          ('exception' if op['raises'] else 'return', name))
      except ValueError:
        pass
      except Exception as e:  # pylint: disable=broad-except
        v('C13.interactive_ends', [type(e).__name__], repr(e))
  sys.modules.pop(MOD, None)
  seen = set()
  uniq = []
  for x in viol:
    t = tuple(x['sig'])
    if t not in seen:
      seen.add(t)
      uniq.append(x)
  log.add('viol', sorted(repr(x['sig']) for x in uniq))
  return {
      'violations': uniq, 'digest': log.digest(), 'key': log.digest(),
      'nontrivial': stats['class_via_register_with_binding'] > 0 and
                    stats['rejected'] > 0,
      'steps': len(log.events),
      'ops': {'registrations': sum(1 for o in case['ops']
                                   if o['op'] == 'register')},
      'faults': {'rejected_registration': stats['rejected'],
                 'interactive_body_raises': stats['interactive_raise']},
      'probes': {'instances_pickled': stats['pickled'],
                 'exact_type_checked': stats['exact_type']},
      'sample_obs': [probes.stable(e) for e in log.events[:8]],
  }


def shrinks(case):
  yield from shrink.tree_shrinks(case, {'ops'}, allow_empty=True)
