"""C06 - the config string round-trips, is canonical and always parses.

History permutation + clear-free re-parse round trip in twin worlds (DESIGN
3/C06).  A binding set (unique keys; nested values, long and awkward strings,
references, macros, non-literal objects, inf / nan, enum members) is applied in
a drawn order through parse_config and bind_parameter, with failing operations
interleaved; every config_str taken along the way must parse in a reset world;
the final text must restore every representable binding with equal value and
type, be a fixpoint of parse+serialise, be identical when the same bindings are
applied in another order, list sections and parameters in canonical order, omit
what has no literal form, and survive markdown() verbatim.  A share of runs does
the same under dynamic registration over virtual packages.
"""
import copy
import enum
import random
import re

from ginsim import cfgtext, probes, shrink, vfs, world
from ginsim.props import c18, c19

ID = 'C06'
LEVEL = 'exploration'
QUICK_RUNS = 6000
THOROUGH_RUNS = 150000
SHRINK_BUDGET = 250
RULE = ('run i draws from Random("<seed>/C06/<i>") a set of 2-14 bindings with '
        'unique keys over probes whose dotted names collide (so minimal '
        'selectors have every length) and differ only in case, scopes, macros; '
        'values from a pool of 40 shapes (nested containers, long strings '
        'that pprint wraps, quotes / newlines / unicode / backslashes, bytes, '
        'floats, references, macros, Tok objects, inf, nan, IntEnum, sets); two '
        'application orders; max_line_length in [indent+1, 120], '
        'continuation_indent in [0, 8]; 0-3 failing operations interleaved; '
        '1/4 of the runs under dynamic registration with colliding import '
        'names. Non-trivial = >=1 value that wraps over several lines or >=1 '
        'non-representable value, and >=3 bindings; distinct = digest of the '
        'event log.')
COMPONENTS = {
    'real': ['_config_str (sorting, wrapping, provenance off)', '_format_value / '
             'representability test', 'ConfigurableReference.__repr__',
             'ImportManager', 'markdown()', 'gin.config_parser for the re-parse'],
    'simulated': ['fresh process = harness reset + same registrations',
                  'virtual import targets for the dynamic-registration share'],
    'stub': ['probe configurables'],
}
ASSUMPTIONS = ['hash order pinned with PYTHONHASHSEED=0 (determinism self-test '
               'repeats under another hash seed)']

# ('ta.Tr.step' is a registered method of the registered class ta.Tr)
PROBES = ['pa.ma.f', 'pb.ma.f', 'ma.g', 'h', 'q.Zed', 'q.zed', 'r.zed',
          'ta.Tr.step']
# registered in the middle of the history: makes the short selectors 'g',
# 'pa.ma.f' and 'Tr.step' insufficient afterwards
LATE_PROBES = ['mb.g', 'xx.pa.ma.f', 'tb.Tr.step']


class Mode(enum.IntEnum):
  FAST = 1
  SLOW = 2


def _value_pool():
  long_s = 'word ' * 30
  return [
      {'lit': 0}, {'lit': -17}, {'lit': 3.5}, {'lit': -0.0}, {'lit': 1e100},
      {'lit': 0.1}, {'lit': True}, {'lit': None}, {'lit': ''},
      {'lit': 'plain'}, {'lit': "it's \"quoted\""}, {'lit': 'line\nbreak\ttab'},
      {'lit': 'back\\slash'}, {'lit': 'unicode é中'},
      {'lit': long_s}, {'lit': [long_s, long_s]},
      {'lit': []}, {'lit': [1, [2, [3, [4]]]]}, {'lit': {}},
      {'lit': {'k': [1, 2], 'j': {'n': None}}}, {'lit': {1: 'a', 2.5: 'b'}},
      {'lit': list(range(60))}, {'lit': ['a' * 30, 'b' * 30, 'a' * 30, 'a' * 30]},
      {'tuple': [{'lit': 1}]}, {'tuple': []},
      {'tuple': [{'lit': 1}, {'lit': 'two'}, {'list': [{'lit': 3}]}]},
      {'bytes': 'ab\x00\xff'},
      {'ref': ['', 'h', False]}, {'ref': ['', 'h', True]},
      {'ref': ['s1', 'pa.ma.f', True]}, {'ref': ['s1/s2', 'ma.g', False]},
      {'list': [{'ref': ['', 'h', True]}, {'lit': 1}]},
      {'macro': 'M0'}, {'list': [{'macro': 'M1'}]},
      {'obj': 'tok'}, {'obj': 'inf'}, {'obj': 'nan'}, {'obj': 'enum'},
      {'obj': 'set'}, {'obj': 'list_with_tok'},
      # an int too long for str() / repr() (CPython's int-to-str digit limit)
      {'obj': 'hugeint'},
      # references as dict keys (written with more than their minimal name) and
      # as dict values
      {'dict': [[{'ref': ['', 'q.Zed', False]}, {'lit': 1}]]},
      {'dict': [[{'lit': 'k'}, {'ref': ['s1', 'rootmod.h', False]}]]},
  ]


def gen(rng, tier):
  pool = _value_pool()
  n = rng.randint(2, 14 if tier == 'thorough' else 10)
  keys = set()
  binds = []
  for _ in range(n):
    full = rng.choice(PROBES)
    scope = rng.choice(['', '', 's1', 's1/s2', 'S1'])
    # ('A' differs from 'a' in case only)
    param = rng.choice(['a', 'b', 'c', 'A'])
    if (scope, full, param) in keys:
      continue
    keys.add((scope, full, param))
    vi = rng.randrange(len(pool))
    binds.append({'scope': scope, 'full': full, 'param': param, 'vi': vi,
                  'api': rng.choice(['parse', 'bind'])})
  macros = [{'name': 'M0', 'vi': rng.choice([0, 9, 17, 34, 35])},
            {'name': 'M1', 'vi': rng.choice([1, 14, 19, 36, 37])}]
  order2 = list(range(len(binds)))
  rng.shuffle(order2)
  indent = rng.randint(0, 8)
  case = {'binds': binds, 'macros': macros, 'order2': order2,
          'indent': indent, 'width': rng.randint(indent + 1, 120),
          'bad_ops': [rng.choice(['bind_unknown', 'parse_syntax', 'call_fail',
                                  'skip_import', 'skip_unknown_ref'])
                      for _ in range(rng.randint(0, 3))],
          'bad_at': rng.randint(0, max(len(binds), 1))}
  case['imports'] = rng.sample(['vsim_mods.alpha', 'vsim_mods.beta',
                                'vsim_mods.beta.gamma'], rng.randint(0, 3))
  if rng.random() < 0.4:
    case['late_at'] = rng.randint(1, max(len(binds), 1))
    case['late_method'] = rng.random() < 0.5
  if rng.random() < 0.25:
    case['dyn'] = {'seed': rng.getrandbits(32)}
  if rng.random() < 0.3:
    case['late_ref'] = {'scope': rng.choice(['', 's1', 's1/s2']),
                        'evaluate': rng.random() < 0.5,
                        'shape': rng.choice(['flat', 'list', 'dict'])}
  return case


def _materialise(v):
  """ValueSpec -> (python object for bind_parameter or None, text or None,
  representable)."""
  if 'obj' in v:
    kind = v['obj']
    obj = {'tok': probes.Tok(0, 'object'), 'inf': float('inf'),
           'nan': float('nan'), 'enum': Mode.FAST, 'set': {1, 2},
           'list_with_tok': [1, probes.Tok(0, 'inner')],
           'hugeint': 10 ** 5000}[kind]
    return obj, None, False
  if 'bytes' in v:
    b = v['bytes'].encode('latin1')
    return b, repr(b), True
  return None, cfgtext.render_value(v), True


def _py_value(v):
  """Plain Python value of a literal ValueSpec (no references)."""
  if 'lit' in v:
    return v['lit']
  if 'tuple' in v:
    return tuple(_py_value(x) for x in v['tuple'])
  if 'list' in v:
    return [_py_value(x) for x in v['list']]
  if 'bytes' in v:
    return v['bytes'].encode('latin1')
  return None


def _has_ref(v):
  if 'ref' in v or 'macro' in v:
    return True
  for k in ('list', 'tuple'):
    if k in v and any(_has_ref(x) for x in v[k]):
      return True
  if 'dict' in v and any(_has_ref(k) or _has_ref(x) for k, x in v['dict']):
    return True
  return False


def src_lines(text):
  return text.split('\n')


def typed(x):
  """Value with types, recursively (references by their stable text)."""
  if isinstance(x, (list, tuple)):
    return (type(x).__name__, [typed(y) for y in x])
  if isinstance(x, dict):
    # dict equality ignores insertion order (and pprint sorts keys)
    return ('dict', sorted(((typed(k), typed(val)) for k, val in x.items()),
                           key=repr))
  if isinstance(x, float):
    return ('float', repr(x))
  if hasattr(x, 'configurable') and hasattr(x, 'scopes'):
    # a reference: what it refers to, not how it happens to be spelled
    return ('reference', '/'.join(x.scopes), x.configurable.selector,
            bool(x.evaluate))
  s = probes.stable(x)
  return (type(x).__name__, s)


_HDR = re.compile(r'^# Parameters for (.*):$')


def run(case):
  gin = world.gin
  viol = []
  log = probes.Log()
  pool = _value_pool()
  stats = {'multiline': 0, 'nonrep': 0, 'texts_checked': 0}

  def v(oracle, disc, msg):
    if len(viol) < 12:
      viol.append({'oracle': oracle, 'sig': [ID, oracle] + list(disc),
                   'msg': msg})

  def hook(name, named, args, kwargs, self_):
    return dict(named)

  def register_one(full):
    if full.endswith('.Tr.step'):
      g = {'__name__': 'ginsim_probes'}
      exec('class Tr:\n'  # pylint: disable=exec-used
           '  def __init__(self, k=0):\n    self.k = k\n'
           "  def step(self, a='dflt', b='dflt', c='dflt', A='dflt'):\n"
           "    return {'a': a, 'b': b, 'c': c, 'A': A}\n", g)
      g['Tr'].step = gin.register(g['Tr'].step)
      gin.register(module=full.split('.')[0])(g['Tr'])
      return
    mod, _, name = full.rpartition('.')
    pyname = 'fn_' + full.replace('.', '_')
    obj, _ = probes.compile_probe(
        {'name': pyname, 'kind': 'fn',
         'params': [{'n': p, 'k': 'def', 'd': 'dflt'} for p in 'abcA']}, hook)
    gin.configurable(name, module=mod or 'rootmod')(obj)

  # the registrations that happen in the middle of the history: with or without
  # the class tb.Tr (whose registration moves its method to another name)
  late_probes = LATE_PROBES if case.get('late_method', True) else \
      [f for f in LATE_PROBES if not f.endswith('.Tr.step')]

  def setup(late=True):
    world.reset()
    probes.plant_module('vsim_mods.alpha')
    probes.plant_module('vsim_mods.beta.gamma')
    for full in LATE_PROBES:
      if late or full not in late_probes:
        register_one(full)
    for full in PROBES:
      register_one(full)
    hobj, _ = probes.compile_probe(
        {'name': 'holder', 'kind': 'fn',
         'params': [{'n': 'ph', 'k': 'def', 'd': None}]}, hook)
    gin.configurable('holder', module='zz')(hobj)

  def fullname(full):
    return full if '.' in full else 'rootmod.' + full

  W, I = case['width'], case['indent']

  def cs():
    return gin.config_str(max_line_length=W, continuation_indent=I)

  late_done = [False]
  placeholder_bound = [False]

  def apply(order, record_texts):
    texts = []
    # recorded imports: parsed in the given order the first time, reversed the
    # second time (the text must not depend on it)
    imps = case.get('imports', [])
    for mname in (imps if record_texts else list(reversed(imps))):
      gin.parse_config('import %s' % mname)
    for idx, m in enumerate(case['macros']):
      val = pool[m['vi']]
      obj, text, rep = _materialise(val)
      if text is not None:
        gin.parse_config('%s = %s' % (m['name'], text))
      else:
        gin.bind_parameter((m['name'], 'gin.macro', 'value'), obj)
    for pos, bi in enumerate(order):
      if record_texts and pos == case.get('late_at', -1):
        # same-named configurables appear while bindings already exist
        for full in late_probes:
          register_one(full)
        late_done[0] = True
      if pos == case['bad_at']:
        for bad in case['bad_ops']:
          if not record_texts and bad != 'skip_unknown_ref':
            # (failed operations leave nothing behind: they are not repeated
            # when the bindings are applied in the other order; the parse that
            # leaves a placeholder is)
            continue
          try:
            if bad == 'skip_import':
              gin.parse_config('import no_such_module_c06\n', skip_unknown=True)
            elif bad == 'skip_unknown_ref':
              # leaves a placeholder for the unknown reference in the store: a
              # value without literal form, to be omitted like any other
              gin.parse_config('zz.holder.ph = [@nope_unknown_c06(), 1]\n',
                               skip_unknown=True)
              placeholder_bound[0] = True
            elif bad == 'bind_unknown':
              gin.bind_parameter('h.nope', 1)
            elif bad == 'parse_syntax':
              gin.parse_config('h.a = [1,\nh.b = 2')
            else:
              gin.get_configurable('h')(1, 2, 3, 4, 5)
          except Exception:  # pylint: disable=broad-except
            pass
          if record_texts:
            texts.append((cs(), late_done[0]))
      b = case['binds'][bi]
      val = pool[b['vi']]
      obj, text, rep = _materialise(val)
      key = (b['scope'] + '/' if b['scope'] else '') + fullname(b['full']) + \
          '.' + b['param']
      if text is not None and (b['api'] == 'parse' or _has_ref(val)):
        gin.parse_config('%s = %s' % (key, text))
      elif text is not None:
        gin.bind_parameter(key, _py_value(val))
      else:
        gin.bind_parameter(key, obj)
      if record_texts:
        texts.append((cs(), late_done[0]))
    return texts

  # ---- world A -------------------------------------------------------------------
  setup(late='late_at' not in case)
  try:
    texts = apply(list(range(len(case['binds']))), True)
    if 'late_at' in case and case['late_at'] >= len(case['binds']):
      for full in late_probes:
        register_one(full)
    S = cs()
  except Exception as e:  # pylint: disable=broad-except
    v('C06.config_str_available', [type(e).__name__],
      'building the configuration / config_str raised %s: %s' %
      (type(e).__name__, probes.scrub(str(e))[:400]))
    texts, S = [], None
  log.add('S', S)
  model = {}
  for b in case['binds']:
    val = pool[b['vi']]
    model[(b['scope'], fullname(b['full']), b['param'])] = val
  for m in case['macros']:
    model[(m['name'], 'gin.macro', 'value')] = pool[m['vi']]
  for key, val in model.items():
    if 'obj' in val:
      stats['nonrep'] += 1
  if S is not None:
    store_a = {(k[0], k[1], p): x
               for k, d in world.config._CONFIG.items() for p, x in d.items()}  # pylint: disable=protected-access
    typed_a = {k: typed(x) for k, x in store_a.items()}
    if any(l.endswith('\\') for l in S.split('\n')):
      stats['multiline'] += 1
    try:
      cp = gin.config_parser
      imported = {st.module for st in cp.ConfigParser(S, c18._StubDelegate())  # pylint: disable=protected-access
                  if isinstance(st, cp.ImportStatement)}
    except Exception:  # pylint: disable=broad-except
      imported = None     # (1) below reports texts that do not parse
    for mname in case.get('imports', []):
      if imported is not None and mname not in imported:
        v('C06.imports_recorded', [],
          'the recorded import of %s is not in config_str() (under any '
          'alias):\n%s' % (mname, S))
    # (7) markdown keeps every binding line verbatim
    md = gin.config.markdown(S).split('\n')
    src = S.split('\n')
    code = [l[4:] for l in md if l.startswith('    ')]
    want_code = [l for l in src if not l.startswith('#')]
    code = [l for l in code if l.strip() and l != '# None.']
    want_code = [l for l in want_code if l.strip()]
    if code != want_code:
      missing = [l for l in want_code if l not in code]
      v('C06.markdown_verbatim', [],
        'markdown() does not keep the binding lines verbatim; e.g. missing or '
        'reordered: %r\n%s' % (missing[:3], S))
    # (5) canonical order of sections and parameters
    headers = [m.group(1) for m in map(_HDR.match, src) if m]

    def sort_key(h):
      # alphabetical by the configurable's complete name (innermost component
      # first), then by scope, ignoring case
      scope, _, sel = h.rpartition('/')
      fulls = [fullname(f) for f in PROBES
               if fullname(f) == sel or fullname(f).endswith('.' + sel)]
      sel = fulls[0] if len(fulls) == 1 else sel
      return sel.lower().split('.')[::-1] + scope.lower().split('/')[::-1]
    if [sort_key(h) for h in headers] != sorted(sort_key(h) for h in headers):
      v('C06.sections_sorted', [],
        'sections are not in canonical order: %r' % headers)
    # (1) every text taken along the way parses in a reset world
    for t, with_late in dict.fromkeys(texts + [(S, True)]):
      # a text is re-parsed against the registrations that existed when it was
      # produced
      setup(late=with_late or 'late_at' not in case)
      stats['texts_checked'] += 1
      try:
        gin.parse_config(t)
      except Exception as e:  # pylint: disable=broad-except
        culprit = 'macro-holding-object' if any(
            'obj' in pool[m['vi']] for m in case['macros']) and \
            '# Macros' in t else 'other'
        v('C06.always_parses', [type(e).__name__, culprit],
          'config_str() does not parse in a reset world: %s: %s\n%s' %
          (type(e).__name__, probes.scrub(str(e))[:300], t))
        break
    # (2) round trip of the final text, (3) fixpoint, (6) omissions
    if not viol:
      setup()
      gin.parse_config(S)
      store_b = {(k[0], k[1], p): x
                 for k, d in world.config._CONFIG.items() for p, x in d.items()}  # pylint: disable=protected-access
      for key, val in sorted(model.items()):
        rep = 'obj' not in val
        if rep:
          if key not in store_b:
            v('C06.round_trip', ['binding-lost'],
              'binding %r = %s is not restored by parsing config_str()\n%s' %
              (key, cfgtext.render_value(val) if 'bytes' not in val
               else val, S))
          elif typed(store_b[key]) != typed_a.get(key):
            v('C06.round_trip', ['value-or-type-differs'],
              'binding %r: original %r, after the round trip %r' %
              (key, typed_a.get(key), typed(store_b[key])))
        elif key in store_b:
          v('C06.nonrepresentable_omitted', [val['obj']],
            'binding %r holds %s, which has no literal form, but the text '
            'defines it: %r\n%s' % (key, val['obj'], store_b[key], S))
      extra = set(store_b) - set(model)
      if extra:
        v('C06.round_trip', ['extra-binding'],
          'parsing config_str() creates bindings that did not exist: %r' %
          sorted(extra))
      S2 = cs()
      all_rep = all('obj' not in val for val in model.values()) and \
          not placeholder_bound[0]
      if all_rep and S2 != S:
        v('C06.fixpoint', [],
          'serialising the re-parsed configuration gives a different text:\n'
          '--- first\n%s\n--- second\n%s' % (S, S2))
      elif not all_rep:
        # what remains after dropping non-representable values is a fixpoint
        setup()
        gin.parse_config(S2)
        if cs() != S2:
          v('C06.fixpoint', ['second-generation'],
            'serialise(parse(S2)) differs from S2')
    # (4) order independence
    if not viol:
      setup()
      apply(case['order2'], False)
      S_other = cs()
      if S_other != S:
        la, lb = S.split('\n'), S_other.split('\n')
        first = next(i for i in range(max(len(la), len(lb)))
                     if i >= len(la) or i >= len(lb) or la[i] != lb[i])
        ha = [h for h in map(_HDR.match, la) if h]
        hb = [h for h in map(_HDR.match, lb) if h]
        kind = 'section-order' if [h.group(1) for h in ha] != \
            [h.group(1) for h in hb] else 'other'
        v('C06.order_independent', [kind],
          'the same bindings applied in another order give a different text '
          '(first difference at line %d):\n--- order 1\n%s\n--- order 2\n%s' %
          (first, S, S_other))
  # ---- a reference written with a short name that a later registration makes
  # ambiguous -----------------------------------------------------------------------
  if case.get('late_ref') and not viol:
    lr = case['late_ref']

    def reg3(with_late):
      world.reset()
      for full in ['ma.g', 'h'] + (['mb.g'] if with_late else []):
        register_one(full)
    reg3(False)
    ref = '@%sg%s' % (lr['scope'] + '/' if lr['scope'] else '',
                      '()' if lr['evaluate'] else '')
    value = {'flat': ref, 'list': '[%s, 1]' % ref,
             'dict': "{'k': (%s,)}" % ref}[lr['shape']]
    try:
      gin.parse_config('h.a = %s' % value)
      register_one('mb.g')
      S3 = cs()
    except Exception as e:  # pylint: disable=broad-except
      S3 = None
      v('C06.config_str_available', ['reference-made-ambiguous',
                                     type(e).__name__],
        "'h.a = %s' parsed while `g` was unique, then mb.g was registered: "
        'config_str() raised %s: %s' % (value, type(e).__name__,
                                        probes.scrub(str(e))[:300]))
    if S3 is not None:
      log.add('late_ref', S3)
      reg3(True)
      try:
        gin.parse_config(S3)
        got = gin.query_parameter('rootmod.h.a')
        while not hasattr(got, 'configurable'):
          got = got['k'] if isinstance(got, dict) else got[0]
        if got.configurable.selector != 'ma.g' or \
            '/'.join(got.scopes) != lr['scope'] or \
            got.evaluate != lr['evaluate']:
          v('C06.round_trip', ['reference-made-ambiguous'],
            'after the round trip h.a refers to %r (scopes %r), written as %s '
            'for ma.g\n%s' % (got.configurable.selector, got.scopes, ref, S3))
      except Exception as e:  # pylint: disable=broad-except
        v('C06.always_parses', ['reference-made-ambiguous', type(e).__name__],
          'config_str() does not parse in a reset world: %s: %s\n%s' %
          (type(e).__name__, probes.scrub(str(e))[:300], S3))
  # ---- dynamic registration share -------------------------------------------------
  if case.get('dyn') and not viol:
    _dynamic(case, v, log, stats)
  seen = set()
  uniq = []
  for x in viol:
    t = tuple(x['sig'])
    if t not in seen:
      seen.add(t)
      uniq.append(x)
  log.add('viol', sorted(repr(x['sig']) for x in uniq))
  return {
      'violations': uniq, 'digest': log.digest(), 'key': log.digest(),
      'nontrivial': (stats['multiline'] > 0 or stats['nonrep'] > 0) and
                    len(case['binds']) >= 3,
      'steps': len(case['binds']) + stats['texts_checked'],
      'ops': {'bindings': len(case['binds']),
              'texts_reparsed': stats['texts_checked']},
      'faults': {'failed_op_interleaved': len(case['bad_ops'])},
      'probes': {'wrapped_values': stats['multiline'],
                 'non_representable_values': stats['nonrep'],
                 'dynamic_registration_runs': 1 if case.get('dyn') else 0},
      'sample_obs': {'config_str': S, 'width': W, 'indent': I},
  }


def _dynamic(case, v, log, stats):
  """config_str under dynamic registration with colliding import names."""
  gin = world.gin
  rng = random.Random(case['dyn']['seed'])
  received = {}

  def hook(module, path, named):
    received[(module, path)] = dict(named)
    return ('result', module, path)
  world.reset()
  mods = c19.plant(hook)
  # an extra package whose submodule is called like another top-level package
  g = {'_hook': hook, '__name__': 'vr.vq0'}
  exec(compile(c19.MOD_SRC, '<vr.vq0>', 'exec'), g)  # pylint: disable=exec-used
  m = probes.plant_module('vr.vq0', {'fn0': g['fn0']})
  mods['vr.vq0'] = m
  choices = [
      ({'form': 'import', 'module': 'vq0.sub.mod', 'alias': None}, 'fn0'),
      ({'form': 'from', 'module': 'vr.vq0', 'alias': None}, 'fn0'),
      ({'form': 'from', 'module': 'vq0.sub.mod', 'alias': None}, 'fn1'),
      ({'form': 'from', 'module': 'vq0.other.mod', 'alias': None}, 'fn0'),
      ({'form': 'from', 'module': 'vq1.mod', 'alias': None}, 'fn2'),
      ({'form': 'import_as', 'module': 'vq1.mod', 'alias': 'mod2'}, 'fn2'),
      ({'form': 'import', 'module': 'vq1.mod', 'alias': None}, 'K0'),
  ]
  picked = rng.sample(choices, rng.randint(2, 4))
  expected = {}
  uid = 0
  for imp, path in picked:
    uid += 1
    lines = ['from __gin__ import dynamic_registration', c19.import_line(imp),
             '%s.a = %d' % (c19.spell(imp, path), uid)]
    want_b = None
    # (the reference always points at `consume`, which is never a binding
    # target here, so no reference cycle can arise)
    others = [o for o in c19.OBJECTS.get(imp['module'], []) if o == 'consume']
    if rng.random() < 0.5 and not path.startswith('K') and others:
      # a value holding a reference (to ANOTHER function) spelled through this
      # file's import
      tgt = others[0]
      lines.append('%s.b = [@%s(), 1]' % (c19.spell(imp, path),
                                          c19.spell(imp, tgt)))
      want_b = [('result', imp['module'], tgt), 1]
    text = '\n'.join(lines) + '\n'
    try:
      gin.parse_config(text)
      # serialise in between: anything computed for one text must not go stale
      # when the next file changes the import aliases
      gin.config_str(max_line_length=case['width'],
                     continuation_indent=case['indent'])
    except Exception as e:  # pylint: disable=broad-except
      v('C06.dynamic_parse', [type(e).__name__],
        'parsing %r (then config_str) raised %r' % (text, e))
      return
    expected[(imp['module'], path)] = uid
    if want_b is not None:
      expected[(imp['module'], path, 'b')] = want_b
  # a class referenced in one text, one of its methods configured in a LATER
  # text (which registers the class anew): the stored reference follows, however
  # it was spelled
  class_then_method = None
  if rng.random() < 0.4:
    forms = [{'form': 'from', 'module': 'vq1.mod', 'alias': None},
             {'form': 'import_as', 'module': 'vq1.mod', 'alias': 'mod2'},
             {'form': 'import', 'module': 'vq1.mod', 'alias': None}]
    imp1, imp2 = rng.choice(forms), rng.choice(forms)
    evaluated = rng.random() < 0.4
    text1 = '\n'.join(['from __gin__ import dynamic_registration',
                       c19.import_line(imp1),
                       '%s.x = @%s%s' % (c19.spell(imp1, 'consume'),
                                         c19.spell(imp1, 'K0'),
                                         '()' if evaluated else '')]) + '\n'
    text2 = '\n'.join(['from __gin__ import dynamic_registration',
                       c19.import_line(imp2),
                       '%s.mp = 77' % c19.spell(imp2, 'K0.meth')]) + '\n'
    try:
      gin.parse_config(text1)
      gin.config_str()
      gin.parse_config(text2)
    except Exception as e:  # pylint: disable=broad-except
      v('C06.dynamic_parse', ['class-then-method', type(e).__name__],
        'parsing %r then %r raised %r' % (text1, text2, e))
      return
    class_then_method = (evaluated, text1, text2)

    def method_sees_binding(where):
      received.clear()
      try:
        gin.get_configurable(c19.lookup(mods, 'vq1.mod', 'consume'))()
        x = received[('vq1.mod', 'consume')]['x']
        (x if evaluated else x()).meth()
        got = received.get(('vq1.mod', 'K0.meth'), {}).get('mp')
      except Exception as e:  # pylint: disable=broad-except
        got = 'EXC %s: %s' % (type(e).__name__, probes.scrub(str(e))[:200])
      if got != 77:
        v('C06.round_trip', ['dynamic', 'class-reference-then-method', where],
          '%s: consume.x = @K0%s (written in %r), K0.meth.mp = 77 set by a '
          'later text (%r): the delivered class\'s meth() receives mp=%r' %
          (where, '()' if evaluated else '', text1, text2, got))
    method_sees_binding('before serialising')
  with_singleton = rng.random() < 0.5
  if with_singleton:
    # Gin's own configurables (`gin.singleton`) next to dynamically registered
    # ones
    text = ('from __gin__ import dynamic_registration\n'
            'import vq0.other.mod as om\n'
            'sk/gin.singleton.constructor = @om.consume\n')
    try:
      gin.parse_config(text)
    except Exception as e:  # pylint: disable=broad-except
      v('C06.dynamic_parse', ['singleton', type(e).__name__],
        'parsing %r raised %r' % (text, e))
      return
  try:
    S = gin.config_str(max_line_length=case['width'],
                       continuation_indent=case['indent'])
  except Exception as e:  # pylint: disable=broad-except
    v('C06.dynamic_config_str', [type(e).__name__],
      'config_str() under dynamic registration raised %s: %s' %
      (type(e).__name__, probes.scrub(str(e))[:300]))
    return
  log.add('dynS', S)
  # The recorded imports are a set: its iteration order is not defined (it
  # changes with PYTHONHASHSEED). Whatever order it is iterated in, the text
  # must be the same.
  real_imports = world.config._IMPORTS  # pylint: disable=protected-access
  if isinstance(real_imports, set):
    for label, rev in (('ascending', False), ('descending', True)):
      class _OrderedView(set):
        _rev = rev

        def __iter__(self):
          return iter(sorted(set.__iter__(self), key=repr, reverse=self._rev))
      world.config._IMPORTS = _OrderedView(real_imports)  # pylint: disable=protected-access
      try:
        S_perm = gin.config_str(max_line_length=case['width'],
                                continuation_indent=case['indent'])
      except Exception as e:  # pylint: disable=broad-except
        S_perm = 'EXC %r' % e
      finally:
        world.config._IMPORTS = real_imports  # pylint: disable=protected-access
      if S_perm != S:
        v('C06.order_independent', ['dynamic', 'set-iteration-order'],
          'config_str() depends on the iteration order of the set of recorded '
          'imports (which varies with PYTHONHASHSEED):\n%s\n--- iterated %s\n%s'
          % (S, label, S_perm))
        break
  world.reset()
  try:
    gin.parse_config(S)
  except Exception as e:  # pylint: disable=broad-except
    v('C06.always_parses', ['dynamic', type(e).__name__],
      'config_str() under dynamic registration does not parse in a reset '
      'world: %s: %s\n%s' % (type(e).__name__, probes.scrub(str(e))[:300], S))
    return
  if with_singleton:
    try:
      ctor = gin.query_parameter('sk/gin.singleton.constructor')
      if getattr(ctor, 'selector', None) is None or \
          not ctor.selector.endswith('consume'):
        raise ValueError('constructor is %r' % (ctor,))
    except Exception as e:  # pylint: disable=broad-except
      v('C06.round_trip', ['dynamic', 'singleton-constructor'],
        'after re-parsing, sk/gin.singleton.constructor: %s\n%s' %
        (probes.scrub(str(e))[:200], S))
  if class_then_method is not None:
    method_sees_binding('after re-parsing config_str()')
  for key, val in sorted(expected.items(), key=repr):
    if len(key) == 3:
      continue
    module, path = key
    obj = c19.lookup(mods, module, path)
    received.clear()
    try:
      gin.get_configurable(obj)()
    except Exception as e:  # pylint: disable=broad-except
      v('C06.round_trip', ['dynamic', type(e).__name__],
        'after re-parsing, %s.%s is not configurable: %r\n%s' %
        (module, path, e, S))
      continue
    want_b = expected.get((module, path, 'b'))
    if want_b is not None:
      got_b = received.get((module, path), {}).get('b')
      if got_b != want_b:
        v('C06.round_trip', ['dynamic', 'reference-value-lost-or-redirected'],
          'after re-parsing config_str(), %s.%s received b=%r, expected %r '
          '(a binding whose value holds a reference)\n%s' %
          (module, path, got_b, want_b, S))
    got = received.get((module, path), {}).get('a')
    if got != val:
      v('C06.round_trip', ['dynamic', 'selector-resolves-to-other-object'],
        'after re-parsing config_str(), %s.%s received a=%r, bound %r '
        '(imports must be re-aliased so that every selector resolves to the '
        'same object)\n%s' % (module, path, got, val, S))
  try:
    if gin.config_str(max_line_length=case['width'],
                      continuation_indent=case['indent']) != S:
      v('C06.fixpoint', ['dynamic'], 'second serialisation differs\n%s' % S)
  except Exception as e:  # pylint: disable=broad-except
    v('C06.fixpoint', ['dynamic', type(e).__name__], repr(e))
  # ---- order independence when the imports are generated by gin itself: ----
  # configurables registered by decorator (no import of any file names them),
  # living in modules with one leaf name, bound through the Python API
  leafs = rng.sample(['vpa.util', 'vpb.util', 'vpc.util', 'vpa.other'],
                     rng.randint(2, 3))
  orders = [list(range(len(leafs))), list(reversed(range(len(leafs))))]
  # registered under their Python names, or under names of their own
  custom = rng.random() < 0.5
  regname = (lambda li: 'custom_sf%d' % li) if custom else \
      (lambda li: 'sf%d' % li)
  texts = []
  for order in orders:
    world.reset()
    names = []
    for li, modname in enumerate(leafs):
      g2 = {'__name__': modname}
      exec('def sf%d(x=0, y=0):\n  return x\n' % li, g2)  # pylint: disable=exec-used
      probes.plant_module(modname, {'sf%d' % li: g2['sf%d' % li]})
      gin.configurable(regname(li))(g2['sf%d' % li])
      names.append('%s.%s' % (modname, regname(li)))
    try:
      gin.parse_config('from __gin__ import dynamic_registration\n')
      for i in order:
        gin.bind_parameter(names[i] + '.x', i)
      texts.append(gin.config_str(max_line_length=case['width'],
                                  continuation_indent=case['indent']))
    except Exception as e:  # pylint: disable=broad-except
      v('C06.dynamic_config_str', ['generated-imports', type(e).__name__],
        'config_str() for decorator-registered %r bound by bind_parameter '
        'under dynamic registration raised %s: %s' %
        (names, type(e).__name__, probes.scrub(str(e))[:300]))
      texts = []
      break
  if len(texts) == 2:
    log.add('dyn_generated_imports', texts[0])
    if texts[0] != texts[1]:
      v('C06.order_independent', ['dynamic', 'generated-imports'],
        'the same bindings made in two orders serialise differently under '
        'dynamic registration:\n%s\n--- other order\n%s' % (texts[0], texts[1]))
    else:
      world.reset()
      for li, modname in enumerate(leafs):
        g2 = {'__name__': modname}
        exec('def sf%d(x=0, y=0):\n  return x\n' % li, g2)  # pylint: disable=exec-used
        probes.plant_module(modname, {'sf%d' % li: g2['sf%d' % li]})
        gin.configurable(regname(li))(g2['sf%d' % li])
      try:
        gin.parse_config(texts[0])
        for li, modname in enumerate(leafs):
          got = gin.query_parameter('%s.%s.x' % (modname, regname(li)))
          if got != li:
            v('C06.round_trip', ['dynamic', 'generated-imports'],
              'after re-parsing, %s.sf%d.x is %r\n%s' %
              (modname, li, got, texts[0]))
      except Exception as e:  # pylint: disable=broad-except
        v('C06.always_parses', ['dynamic', 'generated-imports',
                                type(e).__name__],
          'the text does not parse / resolve in a reset world: %s: %s\n%s' %
          (type(e).__name__, probes.scrub(str(e))[:300], texts[0]))
  import sys
  for name in list(sys.modules):
    if name.split('.')[0] in ('vq0', 'vq1', 'vr', 'Vq2', 'vpa', 'vpb', 'vpc'):
      del sys.modules[name]


def shrinks(case):
  if case.get('dyn'):
    c = copy.deepcopy(case)
    del c['dyn']
    yield c
  if case['bad_ops']:
    c = copy.deepcopy(case)
    c['bad_ops'] = []
    yield c
  # dropping a binding renumbers order2
  n = len(case['binds'])
  for i in reversed(range(n)):
    c = copy.deepcopy(case)
    del c['binds'][i]
    c['order2'] = [j - (1 if j > i else 0) for j in case['order2'] if j != i]
    yield c
  for mi, m in enumerate(case['macros']):
    if m['vi'] != 0:
      c = copy.deepcopy(case)
      c['macros'][mi]['vi'] = 0
      yield c
  for i, b in enumerate(case['binds']):
    if b['vi'] != 0:
      c = copy.deepcopy(case)
      c['binds'][i]['vi'] = 0
      yield c
  if case['width'] != 80 and case['indent'] < 80:
    c = copy.deepcopy(case)
    c['width'] = 80
    yield c
