"""C01 - injected arguments: caller's values over scope-layered bindings.

Seeded operation histories (bind / call / observe) against the executable
reference model of ginsim.callmodel (DESIGN 3/C01).  In a third of the runs the
calls of an epoch are issued from 2-3 simulated threads with different scope
stacks (the store is quiescent meanwhile), so that "the currently active scope"
is the calling thread's.
"""
import contextlib
import copy
import random
import re

from ginsim import callmodel as cm
from ginsim import probes, sched, shrink, world

ID = 'C01'
LEVEL = 'exploration'
QUICK_RUNS = 15000
THOROUGH_RUNS = 400000
SHRINK_BUDGET = 250
ALLOW_REQUIRED = False
RULE = ('run i draws from Random("<seed>/C01/<i>") 1-4 probes (function, class '
        'with __init__ / __new__, method; plain, defaulted, keyword-only, '
        '*args, **kwargs parameters) and a history of 4-40 operations: bind '
        '(string key, tuple key, config text; scopes over {a,b,c} up to depth '
        '3; rebinding), call (direct, via get_configurable by object / name / '
        'scoped name, instantiation; every split of parameters into '
        'positional / keyword / omitted), get_bindings (inherit / strict), '
        'query_parameter, and epochs of calls from 2-3 simulated threads. '
        'Non-trivial = >=1 call that received a binding from a scope of depth '
        '>=2 together with a caller-supplied value; distinct = digest of the '
        'event log.')
COMPONENTS = {
    'real': ['gin wrapper (binding lookup, positional-name drop, deep copy, '
             'caller kwargs merge)', 'config_scope', 'bind_parameter / '
             'parse_config', 'get_configurable / get_bindings / query_parameter'],
    'simulated': ['thread scheduler for multi-thread epochs'],
    'stub': ['probe configurables generated from specs'],
}
ASSUMPTIONS = ['binds never race with calls (gin promises nothing there)']
KINDS = ('fn', 'fn', 'fn', 'cls_init', 'cls_init', 'cls_new', 'cls_new',
         'method', 'method', 'callable_obj')


def _scope(rng, maxd=3):
  return [rng.choice(cm.SCOPE_ALPHA) for _ in range(rng.randint(0, maxd))]


def _bound_value(rng, uid):
  uid[0] += 1
  r = rng.random()
  if r < 0.12:
    # falsy values are values too
    return rng.choice([None, 0, False, '', [], {}])
  if r < 0.6:
    return 'b%d' % uid[0]
  if r < 0.8:
    return ['b%d' % uid[0], uid[0]]
  return {'k': 'b%d' % uid[0], 'n': [uid[0]]}


def gen(rng, tier, allow_required=False, mod_id='C01'):
  nprobes = rng.randint(1, 4)
  specs = []
  for i in range(nprobes):
    s = cm.gen_spec(rng, 'q%d' % i, allow_required=allow_required, kinds=KINDS,
                    lists=allow_required, module='mm.s%d' % (i % 2))
    if s['kind'] == 'callable_obj':
      # an instance has no __name__: only external_configurable(obj, name=...)
      s['api'] = 'external'
      s['regname'] = s['name']
    specs.append(s)
  if allow_required and rng.random() < 0.3:
    # a registered method of a registered class (selector `Class.method`)
    i = len(specs)
    s = cm.gen_spec(rng, 'q%d' % i, allow_required=True, kinds=('regmethod',),
                    lists=False, module='mm.s%d' % (i % 2))
    s['api'] = 'register'
    specs.append(s)
  if rng.random() < 0.3:
    cands = [s for s in specs if cm.alias_eligible(s)]
    if cands:
      specs.append(cm.gen_alias(rng, rng.choice(cands), 'q%d' % len(specs)))
  model = cm.Model(specs)
  uid = [0]
  ops = []
  nops = rng.randint(4, 40 if tier == 'thorough' else 24)
  scopes_used = []
  for _ in range(nops):
    r = rng.random()
    spec = rng.choice(specs)
    full = cm.full_name(spec)
    if r < 0.4:
      cand = [p['n'] for p in spec['params'] if cm.configurable_param(spec, p['n'])]
      if spec.get('varkw'):
        cand += ['x0', 'x1']
        cand = [c for c in cand if cm.configurable_param(spec, c)]
      if not cand:
        continue
      sc = _scope(rng)
      if scopes_used and rng.random() < 0.5:
        base = rng.choice(scopes_used)
        sc = base[:rng.randint(0, len(base))]
      param = rng.choice(cand)
      val = _bound_value(rng, uid)
      parts = full.split('.')
      # a method is addressed at least as `Class.method`
      last = len(parts) - (2 if spec['kind'] == 'regmethod' else 1)
      sel = '.'.join(parts[rng.randint(0, last):])
      ops.append({'op': 'bind', 'scope': '/'.join(sc), 'full': full, 'sel': sel,
                  'param': param, 'val': val,
                  'api': rng.choice(['str', 'tuple', 'parse'])})
      model.bind('/'.join(sc), full, param, val)
      scopes_used.append(sc)
    elif r < 0.8:
      sc = _scope(rng)
      if scopes_used and rng.random() < 0.7:
        base = rng.choice(scopes_used)
        sc = list(base) + ([rng.choice(cm.SCOPE_ALPHA)]
                           if rng.random() < 0.3 else [])
      via = rng.choice(['direct', 'direct', 'getcfg_obj', 'getcfg_name',
                        'getcfg_scoped'])
      if spec['kind'] == 'regmethod':
        via = 'direct'
      elif via == 'getcfg_obj' and (spec.get('alias_of') or any(
          o.get('alias_of') == spec['name'] for o in specs)):
        via = 'getcfg_name'   # one object, two registrations: ambiguous by object
      ambient = sc
      if via == 'getcfg_scoped':
        if not sc:
          via = 'getcfg_name'
        else:
          ambient = _scope(rng, 2)
      # some calls of the history carry gin.REQUIRED markers and may fail
      # cleanly for want of a binding; the calls after them are judged as ever
      fault_call = (not allow_required) and rng.random() < 0.1
      call = cm.gen_call(rng, spec, model, sc, uid,
                         allow_required=allow_required or fault_call,
                         allow_failing=allow_required or fault_call)
      if call is None:
        continue
      pos, kw = call
      if fault_call:
        ops.append({'op': 'call', 'probe': spec['name'], 'scope': sc,
                    'ambient': ambient, 'pos': pos, 'kw': kw, 'via': via,
                    'noise': None, 'weird_values': None, 'raises_base': False})
        continue
      ops.append({'op': 'call', 'probe': spec['name'], 'scope': sc,
                  'ambient': ambient, 'pos': pos, 'kw': kw, 'via': via,
                  'noise': rng.choice([None, None, None, 'invalid_scope',
                                       'nested_ok', 'prebuilt_last']),
                  # caller values with unusual equality; bodies interrupted by a
                  # non-Exception BaseException (the scope must be restored)
                  'weird_values': rng.choice([None, None, None, None, 'eq_any',
                                              'eq_raises']),
                  'raises_base': (not allow_required) and rng.random() < 0.08})
    elif r < 0.9:
      sc = _scope(rng)
      if scopes_used and rng.random() < 0.7:
        sc = list(rng.choice(scopes_used))
      by = rng.choice(['name', 'obj', 'scoped_name'])
      if by == 'obj' and (spec.get('alias_of') or spec['kind'] == 'regmethod' or
                          any(o.get('alias_of') == spec['name'] for o in specs)):
        by = 'name'
      ops.append({'op': 'get_bindings', 'probe': spec['name'], 'scope': sc,
                  'strict': rng.random() < 0.4, 'by': by})
    else:
      ops.append({'op': 'query'})
  if mod_id == 'C01' and not allow_required and rng.random() < 0.25 and ops:
    ops.insert(rng.randint(0, len(ops)), {'op': 'finalize'})
  case = {'specs': specs, 'ops': ops}
  if rng.random() < 0.34:
    threads = []
    for _ in range(rng.randint(2, 3)):
      sc = _scope(rng)
      if scopes_used and rng.random() < 0.8:
        sc = list(rng.choice(scopes_used))
      calls = []
      for _ in range(rng.randint(1, 4)):
        spec = rng.choice(specs)
        call = cm.gen_call(rng, spec, model, sc, uid,
                           allow_required=allow_required,
                           allow_failing=allow_required)
        if call is not None:
          calls.append({'op': 'call', 'probe': spec['name'], 'scope': sc,
                        'ambient': sc, 'pos': call[0], 'kw': call[1],
                        'via': 'direct'})
      threads.append({'scope': sc, 'ops': calls})
    case['epoch'] = {'threads': threads,
                     'sched': {'policy': {'kind': 'rand',
                                          'p': rng.choice([0.05, 0.2, 0.5])},
                               'seed': rng.getrandbits(32)}}
  if mod_id == 'C01' and rng.random() < 0.1:
    # a method registered (and perhaps used, perhaps bound) on its own before
    # its class is registered, which gives it its final name
    case['method_history'] = {
        'early_call': rng.random() < 0.6,
        'bind_before': rng.random() < 0.5,
        'scope': rng.choice(['', '', 'mh']),
        'api': rng.choice(['register', 'external'])}
  return case


# ---------------------------------------------------------------------------
# Execution
# ---------------------------------------------------------------------------

class BaseFault(BaseException):
  """Not an Exception: KeyboardInterrupt-like."""


class _EqAnything(probes.Tok):
  """A caller value that claims to be equal to everything (like mock.ANY)."""
  __slots__ = ()

  def __eq__(self, other):
    return True

  def __ne__(self, other):
    return False

  __hash__ = probes.Tok.__hash__


class _EqRaises(probes.Tok):
  """A caller value whose comparison raises (like a numpy array's truth)."""
  __slots__ = ()

  def __eq__(self, other):
    raise TypeError('comparison of this value is ambiguous')

  __hash__ = probes.Tok.__hash__


class World:
  """Probes compiled and registered in the current gin world."""

  def __init__(self, specs, log):
    self.log = log
    self.calls = []
    self.by_tid = {}
    self.originals = {}
    self.raise_next = None
    self.raise_base_next = None
    self.objs = {}
    self.holders = {}
    self.specs = {s['name']: s for s in specs}
    gin = world.gin

    def hook(name, named, args, kwargs, self_):
      leak = any(v is gin.REQUIRED for v in list(named.values()) + list(args) +
                 list(kwargs.values()))
      sc = world.CURRENT_SCHED
      ts = sc.thread_state() if sc is not None else None
      rec = (name, dict(named), tuple(args), dict(kwargs),
             gin.current_scope(), leak)
      if ts is not None:
        self.by_tid.setdefault(ts.tid, []).append(rec)
      else:
        self.calls.append(rec)
      if self.raise_next and name == self.raise_next:
        self.raise_next = None
        raise RuntimeError('injected body fault')
      if self.raise_base_next and name == self.raise_base_next:
        self.raise_base_next = None
        raise BaseFault('injected non-Exception fault')
      return 'ret-' + name
    self.hookname = {}
    for s in specs:
      spec = dict(s)
      self.hookname[s['name']] = s.get('alias_of') or s['name']
      if s.get('alias_of'):
        obj = self.originals[s['alias_of']]
        kw = {}
        if s.get('allow'):
          kw['allowlist'] = list(s['allow'])
        if s.get('deny'):
          kw['denylist'] = list(s['deny'])
        self.objs[s['name']] = gin.external_configurable(
            obj, name=s['name'], module=s.get('module'), **kw)
        self.originals[s['name']] = obj
        continue
      if s['kind'] == 'regmethod':
        fn_spec = dict(s, kind='fn',
                       params=[{'n': 'self', 'k': 'pos'}] + list(s['params']))
        fn, _ = probes.compile_probe(fn_spec, hook)
        holder = type('H_' + s['name'], (), {'__module__': 'ginsim_probes'})
        fn.__qualname__ = 'H_%s.%s' % (s['name'], s['name'])
        setattr(holder, s['name'], gin.register(fn))
        gin.register(module=s.get('module'))(holder)
        self.originals[s['name']] = fn
        self.holders[s['name']] = gin.get_configurable(holder)()
        self.objs[s['name']] = getattr(type(self.holders[s['name']]), s['name'])
        continue
      if s['kind'] == 'method':
        spec = dict(s, kind='fn',
                    params=[{'n': 'self', 'k': 'pos'}] + list(s['params']))
      obj, _ = probes.compile_probe(spec, hook)
      reg = probes.register_probe(
          dict(spec, module=s.get('module')), obj)
      self.originals[s['name']] = obj
      if s.get('api') == 'register':
        # register() hands back the original; the registry's version is the
        # configurable one.
        reg = gin.get_configurable(reg)
      self.objs[s['name']] = reg
      if s['kind'] == 'method':
        holder = type('Holder_' + s['name'], (), {s['name']: reg})
        self.holders[s['name']] = holder()

  def invoke(self, op, toks):
    """Performs the call described by op; returns (exc or None, record)."""
    gin = world.gin
    s = self.specs[op['probe']]
    full = cm.full_name(s)

    def conv(v):
      if v == cm.REQ:
        return gin.REQUIRED
      kinds = {'eq_any': _EqAnything, 'eq_raises': _EqRaises}
      t = kinds.get(op.get('weird_values'), probes.Tok)(0, v)
      toks[v] = t
      return t
    args = [conv(v) for v in op['pos']]
    kwargs = {k: conv(v) for k, v in op['kw'].items()}
    target = self.objs[op['probe']]
    via = op['via']
    n0 = len(self.calls)
    exc = None
    if op.get('raises_base'):
      self.raise_base_next = self.hookname[op['probe']]
    try:
      scope_ctx = op['ambient'] if via == 'getcfg_scoped' else op['scope']
      if op.get('noise') == 'prebuilt_last' and scope_ctx:
        # the innermost component is entered by name through a context manager
        # that was created while another scope was active
        with gin.config_scope(['elsewhere']):
          inner = gin.config_scope(scope_ctx[-1])
        outer = gin.config_scope(list(scope_ctx[:-1]) or None)
      else:
        inner = contextlib.nullcontext()
        outer = gin.config_scope(list(scope_ctx) if scope_ctx else None)
      with outer, inner:
        # Scope activity that must leave the active scope as it was.
        if op.get('noise') == 'invalid_scope':
          try:
            with gin.config_scope('not a name'):
              pass
          except ValueError:
            pass
        elif op.get('noise') == 'nested_ok':
          with gin.config_scope('zz'):
            pass
        if via == 'direct':
          callee = target
        elif via == 'getcfg_obj':
          # by object: the original (or, for @configurable, the same object)
          callee = gin.get_configurable(self.originals[op['probe']])
        elif via == 'getcfg_name':
          callee = gin.get_configurable(full)
        else:
          callee = gin.get_configurable('/'.join(op['scope']) + '/' + full)
        if s['kind'] in ('method', 'regmethod'):
          callee(self.holders[s['name']], *args, **kwargs)
        else:
          callee(*args, **kwargs)
    except Exception as e:  # pylint: disable=broad-except
      exc = e
    except BaseFault as e:
      exc = e
    self.raise_base_next = None
    # gin may have called other probes (producers) first: the record of this
    # call is the newest one made by the probe itself.
    mine = [r for r in self.calls[n0:] if r[0] == self.hookname[op['probe']]]
    rec = mine[-1] if mine else None
    del self.calls[n0:]
    return exc, rec


def check_call(v, op, exp, exc, rec, toks, prefix='C01'):
  """Compares one observed call with the model's expectation."""
  if op.get('raises_base') and exp['status'] == 'ok':
    if not isinstance(exc, BaseFault):
      v(prefix + '.call_succeeds', ['base-fault-lost'],
        'call %r: the non-Exception fault raised by the body reached the caller '
        'as %r' % (op, exc))
      return
    exc = None
  what = 'call %s%s pos=%r kw=%r under %r via %s' % (
      op['probe'], '', op['pos'], op['kw'], op['scope'], op['via'])
  if exp['status'] == 'error':
    if exc is None:
      v(prefix + '.call_fails', ['no-error', exp['exc']],
        '%s: expected %s (missing %r) but the call succeeded' %
        (what, exp['exc'], exp['missing']))
      return
    if rec is not None:
      v(prefix + '.fails_before_body', [exp['exc']],
        '%s: the call failed (%s) but the function body ran' %
        (what, type(exc).__name__))
    if type(exc).__name__ != exp['exc'] and not isinstance(
        exc, {'RuntimeError': RuntimeError, 'ValueError': ValueError,
              'TypeError': TypeError}[exp['exc']]):
      v(prefix + '.error_class', [exp['exc'], type(exc).__name__],
        '%s: raised %s (%s), expected %s' %
        (what, type(exc).__name__, probes.scrub(str(exc))[:200], exp['exc']))
    elif exp['exc'] == 'RuntimeError':
      msg = str(exc)
      want = list(exp['missing'])
      # format-agnostic: the parameter-like words of the message, after the
      # configurable's name, are exactly the unfilled names in signature order
      head, sep, tail = msg.partition(op['probe'])
      words = re.findall(r'(?<![\w.])(?:p\d+|x\d+|self)(?![\w])', tail)
      if not sep:
        v(prefix + '.error_names_configurable', [],
          '%s: error text %r does not name the configurable' % (what, msg))
      elif words != want:
        v(prefix + '.error_names_missing', [],
          '%s: error text %r names %r, expected exactly %r in signature order' %
          (what, msg[:300], words, want))
    return
  if exc is not None:
    v(prefix + '.call_succeeds', [type(exc).__name__],
      '%s raised %s: %s' % (what, type(exc).__name__,
                            probes.scrub(str(exc))[:300]))
    return
  if rec is None:
    v(prefix + '.call_succeeds', ['body-not-run'], '%s: body did not run' % what)
    return
  name, named, args, kwargs, seen_scope, leak = rec
  named = {k: x for k, x in named.items() if k != 'self'}
  if leak:
    v(prefix + '.marker_never_passed', [],
      '%s: the REQUIRED marker reached the function body: %r %r %r' %
      (what, named, args, kwargs))
  if seen_scope != op['scope']:
    v(prefix + '.scope_at_entry', [op['via']],
      '%s: body ran under scope %r' % (what, seen_scope))

  def same(got, want, from_caller):
    if from_caller:
      return got is toks.get(want)
    return probes.stable(got) == probes.stable(want) and \
        not isinstance(got, probes.Tok)
  caller_vals = set(x for x in list(op['pos']) + list(op['kw'].values())
                    if x != cm.REQ)
  for n, want in exp['named'].items():
    got = named.get(n, '<absent>')
    fc = isinstance(want, str) and want in caller_vals
    if not same(got, want, fc):
      src = 'caller' if fc else ('binding' if n in exp['from_gin'] else 'default')
      v(prefix + '.received_value', [src],
        '%s: parameter %s received %r, model says %r (from %s)' %
        (what, n, got, want, src))
  want_args = list(exp['args'])
  if len(args) != len(want_args) or not all(
      same(g, w, True) for g, w in zip(args, want_args)):
    v(prefix + '.received_value', ['varargs'],
      '%s: *args received %r, model says %r' % (what, args, want_args))
  wk = exp['kwargs']
  if set(kwargs) != set(wk) or not all(
      same(kwargs[k], wk[k], isinstance(wk[k], str) and wk[k] in caller_vals)
      for k in wk):
    v(prefix + '.received_value', ['varkw'],
      '%s: **kwargs received %r, model says %r' % (what, kwargs, wk))


def execute(case, allow_required=False, prefix='C01'):
  gin = world.gin
  world.reset()
  log = probes.Log()
  viol = []

  def v(oracle, disc, msg):
    if len(viol) < 12:
      viol.append({'oracle': oracle, 'sig': [prefix, oracle] + list(disc),
                   'msg': msg})
  w = World(case['specs'], log)
  model = cm.Model(case['specs'])
  stats = {'calls': 0, 'deep_scope_with_caller': 0, 'failing_calls': 0,
           'thread_calls': 0, 'switches': 0}
  for op in case['ops']:
    k = op['op']
    if k == 'bind':
      key = (op['scope'] + '/' if op['scope'] else '') + op['sel'] + '.' + \
          op['param']
      try:
        # (on a finalized configuration bindings are made inside unlock_config)
        import contextlib
        with (gin.unlock_config() if gin.config_is_locked()
              else contextlib.nullcontext()):
          if op['api'] == 'str':
            gin.bind_parameter(key, copy.deepcopy(op['val']))
          elif op['api'] == 'tuple':
            gin.bind_parameter((op['scope'], op['sel'], op['param']),
                               copy.deepcopy(op['val']))
          else:
            gin.parse_config('%s = %r' % (key, op['val']))
        model.bind(op['scope'], op['full'], op['param'], op['val'])
        log.add('bind', key)
      except Exception as e:  # pylint: disable=broad-except
        v(prefix + '.bind_accepted', [type(e).__name__],
          'bind %s raised %s: %s' % (key, type(e).__name__,
                                     probes.scrub(str(e))[:200]))
    elif k == 'finalize':
      # the configuration gets locked in the middle of the history; calls go on
      # as before and later bindings are made inside unlock_config
      try:
        gin.finalize()
      except Exception:  # pylint: disable=broad-except
        pass   # e.g. a binding still set to REQUIRED: stays unlocked
      stats['finalized'] = stats.get('finalized', 0) + int(gin.config_is_locked())
      log.add('finalize', gin.config_is_locked())
    elif k == 'call':
      spec = w.specs[op['probe']]
      exp = model.expect_call(cm.full_name(spec), op['scope'], op['pos'],
                              op['kw'])
      toks = {}
      op = dict(op, display=cm.display_name(spec))
      exc, rec = w.invoke(op, toks)
      stats['calls'] += 1
      if exp['status'] == 'error':
        stats['failing_calls'] += 1
      elif len(op['scope']) >= 2 and exp['from_gin'] and (op['pos'] or op['kw']):
        stats['deep_scope_with_caller'] += 1
      check_call(v, op, exp, exc, rec, toks, prefix)
      if gin.current_scope() != []:
        v(prefix + '.scope_after_call', ['base-fault' if op.get('raises_base')
                                         else 'normal'],
          'after call %r the active scope is %r, not the root scope' %
          (op, gin.current_scope()))
        world.config._SCOPE_MANAGER = type(world.config._SCOPE_MANAGER)()  # pylint: disable=protected-access
      log.add('call', op['probe'], op['scope'], op['via'],
              type(exc).__name__ if exc else None,
              probes.stable(rec[1:4]) if rec else None)
    elif k == 'get_bindings':
      spec = w.specs[op['probe']]
      full = cm.full_name(spec)
      want = model.applicable(full, op['scope'], strict=op['strict'])
      try:
        if op['by'] == 'scoped_name' and op['scope']:
          got = gin.get_bindings('/'.join(op['scope']) + '/' + full,
                                 inherit_scopes=not op['strict'])
        else:
          with gin.config_scope(list(op['scope']) if op['scope'] else None):
            got = gin.get_bindings(full if op['by'] != 'obj' else
                                   w.originals[op['probe']],
                                   inherit_scopes=not op['strict'])
        if probes.stable(dict(sorted(got.items()))) != probes.stable(
            dict(sorted(want.items()))):
          v(prefix + '.get_bindings', ['strict' if op['strict'] else 'inherit'],
            'get_bindings(%s) under %r (%s) is %r, model says %r' %
            (full, op['scope'], op['by'], got, want))
      except Exception as e:  # pylint: disable=broad-except
        v(prefix + '.get_bindings', [type(e).__name__],
          'get_bindings(%s) raised %s: %s' % (full, type(e).__name__,
                                              probes.scrub(str(e))[:200]))
      log.add('get_bindings', full, op['scope'], op['strict'])
    elif k == 'query':
      for (scope, full), d in sorted(model.store.items()):
        for p, val in sorted(d.items()):
          key = (scope + '/' if scope else '') + full + '.' + p
          try:
            got = gin.query_parameter(key)
          except Exception as e:  # pylint: disable=broad-except
            got = e
          if probes.stable(got) != probes.stable(val):
            v(prefix + '.query', [], 'query_parameter(%s) is %r, model %r' %
              (key, got, val))
      log.add('query')
  ep = case.get('epoch')
  sched_info = None
  if ep and ep['threads']:
    s = sched.Sched(random.Random(ep['sched']['seed']), ep['sched']['policy'],
                    replay=ep['sched'].get('replay'), length_hint=2000)
    results = []

    def make(ti, th):
      def program():
        sc = world.CURRENT_SCHED
        for op in th['ops']:
          with sc.atomic():
            spec = w.specs[op['probe']]
            exp = model.expect_call(cm.full_name(spec), op['scope'], op['pos'],
                                    op['kw'], record=False)
            toks = {}
          # World.calls is shared: serialise bookkeeping, not the gin call.
          exc, rec = _invoke_tl(w, op, toks, ti)
          with sc.atomic():
            results.append((ti, op, exp, exc, rec, toks))
      return program

    def _invoke_tl(w_, op, toks, ti):
      gin_ = world.gin
      spec = w_.specs[op['probe']]

      def conv(x):
        if x == cm.REQ:
          return gin_.REQUIRED
        t = probes.Tok(0, x)
        toks[x] = t
        return t
      args = [conv(x) for x in op['pos']]
      kwargs = {kk: conv(x) for kk, x in op['kw'].items()}
      exc = None
      before = len(w_.by_tid.get(world.CURRENT_SCHED.thread_state().tid, []))
      try:
        with gin_.config_scope(list(op['scope']) if op['scope'] else None):
          if spec['kind'] in ('method', 'regmethod'):
            w_.objs[op['probe']](w_.holders[spec['name']], *args, **kwargs)
          else:
            w_.objs[op['probe']](*args, **kwargs)
      except Exception as e:  # pylint: disable=broad-except
        exc = e
      sc = world.CURRENT_SCHED
      with sc.atomic():
        mine = w_.by_tid.get(sc.thread_state().tid, [])
        rec = mine[before] if len(mine) > before else None
        del mine[before:]
      return exc, rec

    for ti, th in enumerate(ep['threads']):
      s.spawn(make(ti, th))
    s.run()
    stats['switches'] = len(s.switch_log)
    for ti, op, exp, exc, rec, toks in results:
      stats['thread_calls'] += 1
      check_call(v, dict(op, via='thread%d' % ti), exp, exc, rec, toks, prefix)
      log.add('tcall', ti, op['probe'], op['scope'],
              type(exc).__name__ if exc else None,
              probes.stable(rec[1:4]) if rec else None)
    for t in s.threads:
      if t.exc is not None:
        v(prefix + '.thread_died', [type(t.exc).__name__], repr(t.exc))
    if s.failure is not None:
      v(prefix + '.thread_died', [type(s.failure).__name__], str(s.failure))
    log.add('sched', s.record())
    sched_info = {'yields': s.yields, 'switches': len(s.switch_log),
                  'digest': s.digest(), 'record': s.record()}
  return viol, log, stats, model, w, sched_info


def _method_history(mh, log):
  """A registered method's bindings reach it whatever happened before its
  class was registered."""
  gin = world.gin
  world.reset()
  seen = []
  g = {'__name__': 'ginsim_probes', 'seen': seen}
  exec('class MH:\n'  # pylint: disable=exec-used
       '  def run(self, x="dx", y="dy"):\n'
       '    seen.append((x, y))\n'
       '    return (x, y)\n', g)
  MH = g['MH']
  MH.__module__ = 'ginsim_probes'
  out = []
  try:
    if mh['api'] == 'register':
      MH.run = gin.register(MH.run)
    else:
      gin.external_configurable(MH.run)
    if mh['bind_before']:
      gin.bind_parameter((mh['scope'], 'ginsim_probes.run', 'x'), 'early-x')
    if mh['early_call']:
      with gin.config_scope(mh['scope'] or None):
        gin.get_configurable(MH.run)(MH())
      want = ('early-x' if mh['bind_before'] else 'dx', 'dy')
      if seen[-1] != want:
        out.append(('before-class', seen[-1], want))
    if mh['api'] == 'register':
      gin.register(module='mm')(MH)
    else:
      gin.external_configurable(MH, module='mm')
    gin.bind_parameter((mh['scope'], 'mm.MH.run', 'y'), 'late-y')
    with gin.config_scope(mh['scope'] or None):
      gin.get_configurable(MH)().run()
    want = ('early-x' if mh['bind_before'] else 'dx', 'late-y')
    if seen[-1] != want:
      out.append(('after-class', seen[-1], want))
    log.add('method_history', mh, list(seen))
  except Exception as e:  # pylint: disable=broad-except
    return [{'oracle': 'C01.call_succeeds',
             'sig': [ID, 'C01.call_succeeds', 'method-history',
                     type(e).__name__],
             'msg': 'method history %r raised %s: %s' %
                    (mh, type(e).__name__, probes.scrub(str(e))[:300])}]
  if out:
    return [{'oracle': 'C01.received_value',
             'sig': [ID, 'C01.received_value', 'method-history', out[0][0]],
             'msg': 'method MH.run registered on its own (%s)%s%s, then its '
                    'class registered and MH.run.y bound: %s call received %r, '
                    'expected %r' %
                    (mh['api'], ', run.x bound' if mh['bind_before'] else '',
                     ', called once' if mh['early_call'] else '',
                     out[0][0], out[0][1], out[0][2])}]
  return []


def run(case):
  viol, log, stats, model, w, si = execute(case, ALLOW_REQUIRED, ID)
  if case.get('method_history') and not viol:
    viol = viol + _method_history(case['method_history'], log)
  seen = set()
  uniq = []
  for x in viol:
    t = tuple(x['sig'])
    if t not in seen:
      seen.add(t)
      uniq.append(x)
  log.add('viol', sorted(repr(x['sig']) for x in uniq))
  res = {
      'violations': uniq, 'digest': log.digest(), 'key': log.digest(),
      'nontrivial': stats['deep_scope_with_caller'] > 0,
      'steps': len(log.events) + (si['yields'] if si else 0),
      'ops': {'calls': stats['calls'], 'thread_calls': stats['thread_calls'],
              'binds': sum(1 for o in case['ops'] if o['op'] == 'bind')},
      'faults': {'preemption': stats['switches'],
                 'call_fails_for_missing_required': stats['failing_calls'],
                 'finalized_mid_history': stats.get('finalized', 0)},
      'probes': {'deep_scope_with_caller_value': stats['deep_scope_with_caller'],
                 'thread_epochs': 1 if si else 0},
      'sample_obs': [probes.stable(e) for e in log.events[:6]],
  }
  if si:
    res['sched'] = {'yields': si['yields'], 'switches': si['switches'],
                    'digest': si['digest']}
    res['sched_records'] = [si['record']]
  return res


def freeze(case, res):
  case = copy.deepcopy(case)
  rec = (res.get('sched_records') or [None])[0]
  if rec and case.get('epoch'):
    case['epoch']['sched']['replay'] = rec
  return case


def shrinks(case):
  if case.get('method_history'):
    c = copy.deepcopy(case)
    del c['method_history']
    yield c
  if case.get('epoch'):
    c = copy.deepcopy(case)
    del c['epoch']
    yield c
  yield from shrink.tree_shrinks(case, {'ops'}, allow_empty=True)
  ep = case.get('epoch')
  if ep and ep['sched'].get('replay') and ep['sched']['replay']['switches']:
    for cut in shrink.list_cuts(ep['sched']['replay']['switches']):
      c = copy.deepcopy(case)
      c['epoch']['sched']['replay']['switches'] = cut
      yield c
  for i, s in enumerate(case['specs']):
    if len(case['specs']) > 1 and not any(
        o.get('probe') == s['name'] or o.get('full') == cm.full_name(s)
        for o in case['ops']):
      c = copy.deepcopy(case)
      del c['specs'][i]
      yield c
