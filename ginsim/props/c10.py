"""C10 - REQUIRED parameters are filled from the config or the call fails cleanly.

Same operation-history engine and reference model as C01 (ginsim.callmodel,
rule A4), with gin.REQUIRED markers as signature defaults and passed by the
caller positionally / by keyword / into **kwargs names / into *args, every
subset of the marked parameters bound at root or under scopes, and registrations
whose allow/deny list excludes a signature-REQUIRED parameter.  The fault is the
absent binding; the oracle includes "the body did not run" (DESIGN 3/C10: no
schedule is involved, stated plainly).
"""
import copy

from ginsim import callmodel as cm
from ginsim import probes, shrink, world
from ginsim.props import c01

ID = 'C10'
LEVEL = 'exploration'
QUICK_RUNS = 20000
THOROUGH_RUNS = 500000
SHRINK_BUDGET = 250
RULE = ('run i draws from Random("<seed>/C10/<i>") 1-4 probes whose signature '
        'defaults are gin.REQUIRED with probability 0.35 (any position incl. '
        'keyword-only), optional allow/deny lists, and a history of binds and '
        'calls in which the caller passes gin.REQUIRED positionally, by keyword, '
        'for **kwargs names and into *args; plus registrations with a '
        'signature-REQUIRED parameter outside the allowlist / inside the '
        'denylist. Non-trivial = >=1 call with a marker that was filled from a '
        'binding and >=1 call that had to fail; distinct = digest of the event '
        'log.')
COMPONENTS = c01.COMPONENTS
ASSUMPTIONS = ['no interleaving is involved in this property; the simulated '
               'facets are the operation history and the absent binding as '
               'fault with effect ordering (failure before the body)']


def gen(rng, tier):
  case = c01.gen(rng, tier, allow_required=True)
  case.pop('epoch', None)
  regs = []
  for i in range(rng.randint(0, 2)):
    kind = rng.choice(['deny_required', 'allow_without_required', 'both_lists',
                       'unknown_in_list', 'ok', 'alias_deny_required',
                       'alias_allow_without_required', 'ghost_then_required'])
    regs.append({'kind': kind, 'name': 'r%d' % i,
                 'api': rng.choice(['configurable', 'register', 'external'])})
  case['regs'] = regs
  case['marker_binding'] = None
  if rng.random() < 0.3:
    case['marker_binding'] = {'how': rng.choice(['text', 'api']),
                              'scope': rng.choice(['', '', 'mb', 'mb/deep'])}
  case['reentered_scope'] = None
  if rng.random() < 0.12:
    case['reentered_scope'] = {'inner': rng.choice(['rb', 'rb/rc']),
                               'how': rng.choice(['captured', 'captured',
                                                  'scoped_configurable']),
                               'body_raises': rng.random() < 0.3}
  return case


def run(case):
  viol, log, stats, model, w, si = c01.execute(case, True, ID)
  gin = world.gin

  def v(oracle, disc, msg):
    viol.append({'oracle': oracle, 'sig': [ID, oracle] + list(disc), 'msg': msg})

  def hook(name, named, args, kwargs, self_):
    return None
  filled = 0
  failing = 0
  for op in case['ops']:
    if op['op'] == 'call' and (cm.REQ in op['pos'] or
                               cm.REQ in op['kw'].values()):
      filled += 1
  failing = stats['failing_calls']
  for r in case.get('regs', []):
    if r['kind'].startswith('alias_'):
      # a callable that is registered already (validly) is registered again,
      # now with a list that excludes its signature-REQUIRED parameter
      base = [sp for sp in case['specs'] if cm.alias_eligible(sp) and
              any(p.get('d') == cm.REQ for p in sp['params'])]
      if not base:
        continue
      sp = base[0]
      req = [p['n'] for p in sp['params'] if p.get('d') == cm.REQ]
      others = [p['n'] for p in sp['params'] if p['n'] not in req]
      kw = {'denylist': [req[0]]} if r['kind'] == 'alias_deny_required' else \
          {'allowlist': others or ['nope_x']}
      exc = None
      try:
        gin.external_configurable(w.originals[sp['name']], name=r['name'],
                                  module='mm.alias', **kw)
      except Exception as e:  # pylint: disable=broad-except
        exc = e
      log.add('reg', r['kind'], type(exc).__name__ if exc else None)
      if exc is None:
        v('C10.registration', [r['kind'], 'accepted'],
          'registering the already registered %s again with %r (excluding its '
          'signature-REQUIRED parameter %s) was accepted' %
          (sp['name'], kw, req[0]))
      continue
    if r['kind'] == 'ghost_then_required':
      # a rejected registration whose function is dropped, then - at once - a
      # new function whose REQUIRED default must be seen
      import gc
      ran = []
      exc = None
      bad = None
      for rnd in range(8):   # memory reuse is likely, not certain: a few rounds
        g1 = {}
        exec('def g(x=1, y=2):\n  return x\n', g1)  # pylint: disable=exec-used
        try:
          gin.external_configurable(g1.pop('g'), name='%s_g%d' % (r['name'], rnd),
                                    allowlist=['nope'])
        except Exception:  # pylint: disable=broad-except
          pass
        g1.clear()
        gc.collect()
        g2 = {'REQ': gin.REQUIRED, 'ran': ran}
        exec('def n(a=REQ, b=2):\n  ran.append(a)\n  return a\n', g2)  # pylint: disable=exec-used
        exc = None
        try:
          conf = gin.external_configurable(g2['n'],
                                           name='%s_n%d' % (r['name'], rnd))
          conf()
        except Exception as e:  # pylint: disable=broad-except
          exc = e
        if ran or not isinstance(exc, RuntimeError):
          bad = rnd
          break
      log.add('reg', r['kind'], type(exc).__name__ if exc else None, len(ran))
      if ran:
        v('C10.marker_never_passed', ['after-rejected-registration'],
          'a function registered right after a rejected registration ran with '
          'the REQUIRED marker for its unbound parameter (round %s): %r' %
          (bad, ran))
      elif not isinstance(exc, RuntimeError):
        v('C10.call_fails', ['after-rejected-registration',
                             type(exc).__name__ if exc else 'no-error'],
          'expected RuntimeError for the unbound REQUIRED parameter, got %r' %
          exc)
      continue
    params = [{'n': 'a', 'k': 'def', 'd': cm.REQ}, {'n': 'b', 'k': 'def', 'd': 1}]
    spec = {'name': r['name'], 'kind': 'fn', 'params': params, 'api': r['api']}
    if r['kind'] == 'deny_required':
      spec['deny'] = ['a']
    elif r['kind'] == 'allow_without_required':
      spec['allow'] = ['b']
    elif r['kind'] == 'both_lists':
      spec['allow'] = ['a']
      spec['deny'] = ['b']
    elif r['kind'] == 'unknown_in_list':
      spec['allow'] = ['a', 'nope']
    else:
      spec['allow'] = ['a']
    obj, _ = probes.compile_probe(spec, hook)
    exc = None
    try:
      probes.register_probe(spec, obj)
    except Exception as e:  # pylint: disable=broad-except
      exc = e
    log.add('reg', r['kind'], r['api'], type(exc).__name__ if exc else None)
    if r['kind'] == 'ok':
      if exc is not None:
        v('C10.registration', ['ok-rejected'],
          'valid registration raised %r' % exc)
      continue
    if exc is None:
      v('C10.registration', [r['kind'], 'accepted'],
        'registration with %s was accepted' % r['kind'])
    elif not isinstance(exc, ValueError):
      v('C10.registration', [r['kind'], type(exc).__name__],
        'registration with %s raised %s, expected ValueError' %
        (r['kind'], type(exc).__name__))
    try:
      gin.get_configurable(r['name'])
      v('C10.registration', [r['kind'], 'registered-anyway'],
        'rejected registration %s left %s in the registry' %
        (r['kind'], r['name']))
    except Exception:  # pylint: disable=broad-except
      pass
  # ---- a binding whose VALUE is the REQUIRED marker ("to be overridden") fills
  # nothing: a parameter marked REQUIRED still fails cleanly, and the marker
  # never reaches the body
  mb = case.get('marker_binding')
  if mb and not viol:
    ran = []

    def _rq(a, b=gin.REQUIRED, c=3):
      ran.append((a, b, c))
      return (a, b, c)
    _rq.__name__ = _rq.__qualname__ = 'rq'
    rq = gin.configurable('rq', module='mm.rq')(_rq)
    try:
      if mb['how'] == 'text':
        gin.parse_config('%srq.b = %%gin.REQUIRED' %
                         (mb['scope'] + '/' if mb['scope'] else ''))
      else:
        gin.bind_parameter((mb['scope'], 'mm.rq.rq', 'b'), gin.REQUIRED)
      if mb['scope']:
        gin.bind_parameter('mm.rq.rq.b', 'root-value')
    except Exception as e:  # pylint: disable=broad-except
      v('C10.registration', ['marker-binding', type(e).__name__],
        'binding rq.b to the REQUIRED marker raised %r' % e)
      mb = None
  if mb and not viol:
    calls = {'omitted': lambda: rq(1),
             'keyword': lambda: rq(1, b=gin.REQUIRED),
             'positional': lambda: rq(1, gin.REQUIRED)}
    for cname, fn in sorted(calls.items()):
      del ran[:]
      exc = None
      try:
        with gin.config_scope(mb['scope'] or None):
          fn()
      except Exception as e:  # pylint: disable=broad-except
        exc = e
      log.add('marker_binding', mb, cname, type(exc).__name__ if exc else None)
      if any(x[1] is gin.REQUIRED or type(x[1]) is object for x in ran):
        v('C10.marker_never_passed', ['binding-holds-the-marker', cname],
          'rq.b is bound to the REQUIRED marker (%s, scope %r): the call (%s) '
          'ran the body with %s' % (mb['how'], mb['scope'], cname, probes.scrub(repr(ran))))
      elif not isinstance(exc, RuntimeError) or 'b' not in str(exc) or \
          'rq' not in str(exc):
        v('C10.call_fails', ['binding-holds-the-marker', cname,
                             type(exc).__name__ if exc else 'no-error'],
          'rq.b is bound to the REQUIRED marker (%s, scope %r): the call (%s) '
          'should fail naming rq and b, got %r (body ran with %r)' %
          (mb['how'], mb['scope'], cname, exc, ran))
    if mb['scope']:
      # outside that scope the root binding fills the parameter as usual
      del ran[:]
      try:
        got = rq(1)
      except Exception as e:  # pylint: disable=broad-except
        got = 'EXC %r' % e
      if got != (1, 'root-value', 3):
        v('C10.received_value', ['binding-holds-the-marker', 'other-scope'],
          'outside scope %r rq(1) gives %r, expected b=root-value' %
          (mb['scope'], got))
  # ---- a scope that is entered a second time while it is still open (through
  # the list `with config_scope(...) as s` handed out, or through a scoped
  # configurable calling itself): leaving the inner activation leaves the outer
  # one in force, and REQUIRED is filled from ITS binding
  rs = case.get('reentered_scope')
  if rs and not viol:
    seen_rs = []

    def _rs(x=gin.REQUIRED, depth=0):
      seen_rs.append(x)
      if depth:
        with gin.config_scope(rs['inner']):
          gin.get_configurable('ra/mm.rs.rs')(gin.REQUIRED, depth=depth - 1)
      return x
    _rs.__name__ = _rs.__qualname__ = 'rs'
    rsf = gin.configurable('rs', module='mm.rs')(_rs)
    try:
      gin.bind_parameter('mm.rs.rs.x', 'root-x')
      gin.bind_parameter('ra/mm.rs.rs.x', 'ra-x')
      got = None
      if rs['how'] == 'captured':
        with gin.config_scope('ra') as held:
          try:
            with gin.config_scope(rs['inner']):
              with gin.config_scope(held):
                if rs['body_raises']:
                  raise KeyError('inside the re-entered scope')
          except KeyError:
            pass
          got = rsf(gin.REQUIRED)
      else:
        got = gin.get_configurable('ra/mm.rs.rs')(gin.REQUIRED, depth=1)
        got = seen_rs[0]
        with gin.config_scope('ra'):
          with gin.config_scope(rs['inner']):
            try:
              gin.get_configurable('ra/mm.rs.rs')(gin.REQUIRED)
            except Exception:  # pylint: disable=broad-except
              pass
          got = rsf(gin.REQUIRED)
      log.add('reentered_scope', rs, got)
      if got != 'ra-x':
        v('C10.received_value', ['scope-entered-twice'],
          'scope ra entered, %s entered inside it, ra entered again (%s) and '
          'left: a call with the REQUIRED marker still inside the outer ra '
          'receives %r, the binding under ra is ra-x' %
          (rs['inner'], rs['how'], got))
      if gin.current_scope() != []:
        v('C10.received_value', ['scope-entered-twice', 'left-open'],
          'scope after all blocks were left: %r' % (gin.current_scope(),))
    except Exception as e:  # pylint: disable=broad-except
      v('C10.call_succeeds', ['scope-entered-twice', type(e).__name__],
        're-entered scope scenario %r raised %s: %s' %
        (rs, type(e).__name__, probes.scrub(str(e))[:300]))
  seen = set()
  uniq = []
  for x in viol:
    t = tuple(x['sig'])
    if t not in seen:
      seen.add(t)
      uniq.append(x)
  log.add('viol', sorted(repr(x['sig']) for x in uniq))
  return {
      'violations': uniq, 'digest': log.digest(), 'key': log.digest(),
      'nontrivial': filled > 0 and failing > 0,
      'steps': len(log.events),
      'ops': {'calls': stats['calls'], 'calls_with_marker': filled,
              'registrations': len(case.get('regs', []))},
      'faults': {'binding_absent_call_must_fail': failing},
      'probes': {'calls_with_marker': filled, 'failing_calls': failing},
      'sample_obs': [probes.stable(e) for e in log.events[:6]],
  }


def shrinks(case):
  yield from shrink.tree_shrinks(case, {'ops', 'regs'}, allow_empty=True)
  yield from c01.shrinks(case)
