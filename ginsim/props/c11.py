"""C11 - only configurable parameters of registered configurables can be bound.

Operation histories in which binding attempts of every parameter class
(valid, unknown, any-name-under-**kwargs, listed, unlisted, method via
Class.method, bare method name, unregistered configurable) are made through
every API path (string key, tuple key, config line, indented block, scoped key,
finalize-hook mapping), with re-registrations in interactive mode in between.
The rejected operation is the fault: it must raise and leave a bit-identical
store (DESIGN 3/C11).
"""
import copy

from ginsim import callmodel as cm
from ginsim import probes, shrink, world

ID = 'C11'
LEVEL = 'exploration'
QUICK_RUNS = 15000
THOROUGH_RUNS = 400000
SHRINK_BUDGET = 250
RULE = ('run i draws from Random("<seed>/C11/<i>") 1-3 probes of every shape '
        '(function / class; positional, defaulted, keyword-only, *args, '
        '**kwargs; no list, allowlist, denylist), a registered class with a '
        'registered method, and a history of 4-30 binding attempts (parameter '
        'class x API path x scope), re-registrations in interactive mode that '
        'change lists or signature, probe calls, and a final finalize whose '
        'hooks return mappings mixing valid and invalid keys. Non-trivial = >=1 '
        'rejected attempt while the store was non-empty and >=1 accepted one; '
        'distinct = digest of the event log.')
COMPONENTS = {
    'real': ['ParsedBindingKey.parse (validation)', 'bind_parameter', 'parse_config '
             '(flat and block)', 'finalize hook merge', 'registration in '
             'interactive mode', 'signature inspection'],
    'simulated': ['rejected operations as faults (state left behind is the '
                  'observable)'],
    'stub': ['probe configurables and hooks'],
}
ASSUMPTIONS = ['single caller thread']
APIS = ['str', 'tuple', 'line', 'block', 'scoped_str', 'scoped_line']


def gen(rng, tier):
  specs = []
  for i in range(rng.randint(1, 3)):
    specs.append(cm.gen_spec(rng, 'q%d' % i, kinds=('fn', 'fn', 'cls_init',
                                                    'cls_new'),
                             lists=True, module='mm.s%d' % (i % 2),
                             max_params=4))
    specs[-1]['api'] = 'configurable'
  ops = []
  uid = [0]
  for _ in range(rng.randint(4, 30 if tier == 'thorough' else 18)):
    r = rng.random()
    if r < 0.72:
      target = rng.choice(['probe', 'probe', 'probe', 'method', 'bare_method',
                           'unregistered', 'klass', 'plain_class', 'posonly'])
      spec = rng.choice(specs)
      uid[0] += 1
      if target == 'probe':
        names = cm.all_names(spec)
        cls = rng.choice(['valid', 'valid', 'unknown', 'listed', 'varname'])
        if cls == 'valid' and names:
          param = rng.choice(names)
        elif cls == 'listed' and (spec.get('allow') or spec.get('deny')):
          param = rng.choice(spec.get('allow') or spec.get('deny'))
        elif cls == 'varname':
          param = rng.choice(['args', 'kwargs'])
        else:
          param = rng.choice(['nope', 'zz9', 'ghost_p'])
        sel_full = cm.full_name(spec)
      elif target == 'method':
        param = rng.choice(['ma', 'mb', 'nope'])
        sel_full = 'mm.K.meth'
      elif target == 'klass':
        param = rng.choice(['ka', 'kb', 'nope'])
        sel_full = 'mm.K'
      elif target == 'posonly':
        # def po(a=1, /, b=2): gin passes values by keyword, which `a` cannot
        # take
        param = rng.choice(['a', 'a', 'b'])
        sel_full = 'mm.po'
      elif target == 'plain_class':
        # a class with neither __init__ nor __new__ takes no parameters at all
        param = rng.choice(['bogus', 'a', 'self'])
        sel_full = 'mm.Plain'
      elif target == 'bare_method':
        param = 'ma'
        # without its class: bare, or under the module it was first registered
        # in (before the class took it over)
        sel_full = rng.choice(['meth', 'meth', 'ginsim_probes.meth', 'mm.meth',
                               # (K.meth2 gets registered by the dyn_touch
                               # operation, if at all: dynamically)
                               'meth2', 'meth2'])
        if sel_full == 'meth2':
          param = 'm2'
      else:
        param = 'a'
        sel_full = rng.choice(['never_registered', 'mm.s0.ghost'])
      parts = sel_full.split('.')
      sel = '.'.join(parts[rng.randint(0, len(parts) - 1):]) \
          if target in ('probe',) else sel_full
      if target == 'method':
        sel = rng.choice(['mm.K.meth', 'K.meth'])
      if target == 'klass':
        sel = rng.choice(['mm.K', 'K'])
      if target == 'plain_class':
        sel = rng.choice(['mm.Plain', 'Plain'])
      if target == 'posonly':
        sel = rng.choice(['mm.po', 'po'])
      ops.append({'op': 'attempt', 'target': target, 'probe': spec['name'],
                  'sel': sel, 'param': param, 'val': 'v%d' % uid[0],
                  'api': rng.choice(APIS), 'scope': rng.choice(['sa', 'sa/sb'])})
    elif r < 0.82:
      spec = rng.choice(specs)
      new = cm.gen_spec(rng, spec['name'], kinds=(spec['kind'],), lists=True,
                        module=spec['module'], max_params=4)
      new['api'] = 'configurable'
      ops.append({'op': 'reregister', 'probe': spec['name'], 'spec': new,
                  'interactive': rng.random() < 0.8})
    elif r < 0.845 and rng.random() < 0.5:
      # the very same callable registered once more under the same name, with
      # other lists (accepted outside interactive mode): the lists given last
      # are the ones in force
      spec = rng.choice(specs)
      names = [p['n'] for p in spec['params']]
      if names:
        new = copy.deepcopy(spec)
        new.pop('allow', None)
        new.pop('deny', None)
        chosen = sorted(n for n in names if rng.random() < 0.6) or [names[0]]
        new[rng.choice(['allow', 'deny'])] = chosen
        ops.append({'op': 'relist', 'probe': spec['name'], 'spec': new})
    elif r < 0.84:
      # a dynamic-registration text configures a not yet registered method of the
      # (statically registered, denylisted) class K, which re-registers K
      ops.append({'op': 'dyn_touch', 'val': uid[0]})
    elif r < 0.86:
      # a registration rejected for its list, after which the function object is
      # dropped (and its memory reused by whatever is created next)
      ops.append({'op': 'ghost', 'n': uid[0]})
    elif r < 0.92:
      ops.append({'op': 'call', 'probe': rng.choice(specs)['name'],
                  'scope': rng.choice(['', 'sa', 'sa/sb'])})
    else:
      ops.append({'op': 'observe'})
  hooks = []
  for _ in range(rng.randint(0, 2)):
    items = []
    for _ in range(rng.randint(1, 3)):
      spec = rng.choice(specs)
      uid[0] += 1
      good = rng.random() < 0.6
      names = cm.all_names(spec)
      items.append({'probe': spec['name'],
                    'param': (rng.choice(names) if good and names else 'nope'),
                    'val': 'h%d' % uid[0],
                    'scope': rng.choice(['', 'sa'])})
    hooks.append(items)
  return {'specs': specs, 'ops': ops, 'hooks': hooks,
          'shadow': rng.choice([None, None, 'function', 'two_classes',
                                'redefined_class', 'bound_then_rehomed'])}


K_SRC = '''
class K:
  """Class with a registered method."""
  def __init__(self, ka=0, kb=0):
    self.ka, self.kb = ka, kb
  def meth(self, ma=1, mb=2):
    return _hook('K.meth', {'ma': ma, 'mb': mb}, (), {}, self)
  def meth2(self, m2=3):
    return _hook('K.meth2', {'m2': m2}, (), {}, self)
'''


def run(case):
  gin = world.gin
  world.reset()
  log = probes.Log()
  viol = []
  received = {}
  stats = {'rejected_nonempty': 0, 'accepted': 0, 'reregistered': 0,
           'hook_rejected': 0, 'hook_applied': 0, 'relisted': 0}

  def v(oracle, disc, msg):
    if len(viol) < 12:
      viol.append({'oracle': oracle, 'sig': [ID, oracle] + list(disc),
                   'msg': msg})

  def hook(name, named, args, kwargs, self_):
    received[name] = (dict(named), tuple(args), dict(kwargs))
    return None

  current = {}
  objs = {}

  def build(spec):
    obj, _ = probes.compile_probe(spec, hook)
    return obj

  originals = {}
  first_spec = {}
  for s in case['specs']:
    obj = build(s)
    objs[s['name']] = probes.register_probe(s, obj)
    current[s['name']] = s
    first_spec[s['name']] = s
    # (classes as well: gin.configurable on the same class object once more)
    originals[s['name']] = obj
  g = {'_hook': hook, '__name__': 'ginsim_probes'}
  exec(compile(K_SRC, '<K>', 'exec'), g)  # pylint: disable=exec-used
  K = g['K']
  K.__module__ = 'ginsim_probes'
  # the method has its own denylist, which must survive its re-homing under K
  K.meth = gin.register(denylist=['mb'])(K.meth)
  # the class itself is registered with a denylist
  gin.register(module='mm', denylist=['kb'])(K)
  KC = gin.get_configurable(K)
  plain, _ = probes.compile_probe({'name': 'Plain', 'kind': 'cls_plain'}, hook)
  gin.configurable('Plain', module='mm')(plain)
  gpo = {'_hook': hook}
  exec('def po(a=1, /, b=2):\n'  # pylint: disable=exec-used
       "  return _hook('po', {'a': a, 'b': b}, (), {}, None)\n", gpo)
  gin.configurable('po', module='mm')(gpo['po'])
  probes.plant_module('vmod_c11', {'K': K})

  def snapshot():
    cfg = getattr(world.config, '_CONFIG', None)
    prov = getattr(world.config, '_CONFIG_PROVENANCE', None)
    snap = {}
    if cfg is not None:
      snap['store'] = {k: {p: (probes.stable(x), id(x)) for p, x in
                           sorted(d.items())} for k, d in sorted(cfg.items())}
      snap['store_keys'] = list(cfg)
    if prov is not None:
      snap['prov'] = {k: sorted((p, probes.stable(tuple(l) if l else None))
                                for p, l in d.items())
                      for k, d in sorted(prov.items())}
    try:
      snap['text'] = gin.config_str()
    except Exception as e:  # pylint: disable=broad-except
      snap['text'] = 'EXC %r' % e
    snap['locked'] = gin.config_is_locked()
    return snap

  model = {}     # (scope, full, param) -> val
  rejected_vals = set()

  def admissible(op):
    t = op['target']
    if t == 'probe':
      spec = current[op['probe']]
      full = cm.full_name(spec)
      return cm.configurable_param(spec, op['param']), full
    if t == 'method':
      return op['param'] == 'ma', 'mm.K.meth'
    if t == 'klass':
      return op['param'] == 'ka', 'mm.K'
    if t == 'posonly':
      return op['param'] == 'b', 'mm.po'
    return False, None

  def do_attempt(op):
    api = op['api']
    scope = op['scope'] if api.startswith('scoped') else ''
    key = (scope + '/' if scope else '') + op['sel'] + '.' + op['param']
    if api in ('str', 'scoped_str'):
      gin.bind_parameter(key, op['val'])
    elif api == 'tuple':
      gin.bind_parameter((scope, op['sel'], op['param']), op['val'])
    elif api in ('line', 'scoped_line'):
      gin.parse_config('# c\n%s = %r\n' % (key, op['val']))
    elif api == 'block':
      gin.parse_config('%s:\n  %s = %r\n' % (op['sel'], op['param'], op['val']))
    return scope

  for op in case['ops']:
    k = op['op']
    if k == 'attempt':
      ok, full = admissible(op)
      before = snapshot()
      nonempty = bool(before.get('store'))
      exc = None
      scope = ''
      try:
        scope = do_attempt(op)
      except Exception as e:  # pylint: disable=broad-except
        exc = e
      what = 'attempt %s' % {kk: vv for kk, vv in op.items() if kk != 'op'}
      log.add('attempt', op['target'], op['sel'], op['param'], op['api'],
              type(exc).__name__ if exc else None)
      if ok:
        if exc is not None:
          v('C11.valid_accepted', [op['api'], type(exc).__name__],
            '%s raised %s: %s' % (what, type(exc).__name__,
                                  probes.scrub(str(exc))[:300]))
          continue
        stats['accepted'] += 1
        model[(scope, full, op['param'])] = op['val']
        # visible by query under the complete name
        keyq = (scope + '/' if scope else '') + full + '.' + op['param']
        try:
          got = gin.query_parameter(keyq)
        except Exception as e:  # pylint: disable=broad-except
          got = 'EXC %s' % type(e).__name__
        if got != op['val']:
          v('C11.accepted_visible', [op['api']],
            '%s: query_parameter(%r) gives %r' % (what, keyq, got))
      else:
        rejected_vals.add(op['val'])
        if nonempty:
          stats['rejected_nonempty'] += 1
        if exc is None:
          v('C11.rejected_raises', [op['target'], op['api']],
            '%s was accepted although the model rejects it (spec %r)' %
            (what, current.get(op['probe'])))
          after = snapshot()
        else:
          after = snapshot()
          if after != before:
            v('C11.rejection_atomic', [op['api']],
              '%s raised %s but changed the configuration:\n before %r\n after  '
              '%r' % (what, type(exc).__name__, before, after))
    elif k == 'dyn_touch':
      try:
        gin.parse_config(['from __gin__ import dynamic_registration',
                          'import vmod_c11',
                          'vmod_c11.K.meth2.m2 = %d' % op['val']])
      except Exception as e:  # pylint: disable=broad-except
        v('C11.valid_accepted', ['dynamic-method', type(e).__name__],
          'configuring K.meth2 through dynamic registration raised %s: %s' %
          (type(e).__name__, probes.scrub(str(e))[:300]))
      log.add('dyn_touch', op['val'])
    elif k == 'ghost':
      import gc
      g2 = {}
      exec('def ghost%d(ghost_p=0, a=1):\n  return a\n' % op['n'], g2)  # pylint: disable=exec-used
      try:
        gin.external_configurable(g2.pop('ghost%d' % op['n']),
                                  name='ghost%d' % op['n'],
                                  allowlist=['a', 'nope'])
        v('C11.rejected_raises', ['registration-bad-list'],
          'registration with an unknown allowlist name was accepted')
      except Exception:  # pylint: disable=broad-except
        pass
      g2.clear()
      gc.collect()
      # ... and at once another function is created (memory reuse is likely,
      # not certain: a few rounds), which must be judged by ITS signature
      bad = None
      stats['ghosts'] = stats.get('ghosts', 0) + 1
      for rnd in range(8):
        g4 = {}
        exec('def ghost_again(ghost_p=0, a=1):\n  return a\n', g4)  # pylint: disable=exec-used
        try:
          gin.external_configurable(g4.pop('ghost_again'),
                                    name='ghost%d_%d_%d' % (op['n'], stats['ghosts'], rnd),
                                    allowlist=['a', 'nope'])
        except Exception:  # pylint: disable=broad-except
          pass
        g4.clear()
        gc.collect()
        g5 = {}
        exec('def fresh(z=0, w=1):\n  return z\n', g5)  # pylint: disable=exec-used
        nm = 'fresh%d_%d_%d' % (op['n'], stats['ghosts'], rnd)
        try:
          gin.external_configurable(g5['fresh'], name=nm, module='mm',
                                    allowlist=['z'])
          gin.bind_parameter('mm.%s.z' % nm, 5)
        except Exception as e:  # pylint: disable=broad-except
          bad = (rnd, e)
          break
        try:
          gin.bind_parameter('mm.%s.ghost_p' % nm, 5)
          bad = (rnd, 'ghost_p accepted')
          break
        except Exception:  # pylint: disable=broad-except
          pass
      if bad is not None:
        v('C11.valid_accepted', ['fresh-function-after-dropped-one'],
          'a function fresh(z=0, w=1) created right after a rejected and '
          'dropped registration (round %d): allowlist [\'z\'] / binding z / '
          'rejecting ghost_p went wrong: %s' %
          (bad[0], probes.scrub(str(bad[1]))[:200]))
      log.add('ghost', op['n'])
    elif k == 'reregister':
      spec = op['spec']
      obj = build(spec)
      exc = None
      try:
        if op['interactive']:
          with gin.config.interactive_mode():
            new = probes.register_probe(spec, obj)
        else:
          new = probes.register_probe(spec, obj)
      except Exception as e:  # pylint: disable=broad-except
        exc = e
      log.add('reregister', op['probe'], op['interactive'],
              type(exc).__name__ if exc else None)
      if exc is None:
        # another object now owns the name
        originals.pop(op['probe'], None)
      if op['interactive']:
        if exc is None:
          current[op['probe']] = spec
          objs[op['probe']] = new
          stats['reregistered'] += 1
          # bindings of parameters the new version cannot take stay in the
          # store but are no longer judged
          for key in [kk for kk in model if kk[1] == cm.full_name(spec)]:
            if not cm.configurable_param(spec, key[2]):
              del model[key]
      elif exc is None:
        v('C11.reregistration', ['outside-interactive'],
          're-registering %s outside interactive mode was accepted' %
          op['probe'])
        current[op['probe']] = spec
        objs[op['probe']] = new
    elif k == 'relist':
      # only the registration made through this run's first specs can be
      # repeated with the same object
      if op['probe'] not in originals:
        continue
      spec = op['spec']
      exc = None
      try:
        new = probes.register_probe(spec, originals[op['probe']])
      except Exception as e:  # pylint: disable=broad-except
        exc = e
      log.add('relist', op['probe'], type(exc).__name__ if exc else None)
      if exc is None:
        current[op['probe']] = spec
        objs[op['probe']] = new
        stats['relisted'] += 1
        for key in [kk for kk in model if kk[1] == cm.full_name(spec)]:
          if not cm.configurable_param(spec, key[2]):
            del model[key]
      # (gin may refuse a repeated registration of a class; not judged)
    elif k == 'call':
      spec = current[op['probe']]
      full = cm.full_name(spec)
      scope = op['scope'].split('/') if op['scope'] else []
      app = {}
      for i in range(len(scope) + 1):
        for (sc, fl, p), val in model.items():
          if sc == '/'.join(scope[:i]) and fl == full:
            app[p] = val
      # supply every parameter without a default or binding
      kwargs = {}
      for p in spec['params']:
        if p['k'] in ('pos', 'kwo') and p['n'] not in app:
          kwargs[p['n']] = 'caller'
      received.clear()
      try:
        with gin.config_scope(scope if scope else None):
          objs[op['probe']](**kwargs)
      except Exception as e:  # pylint: disable=broad-except
        # Stale bindings of a replaced signature may make the call fail; that
        # is outside this property.
        log.add('call', op['probe'], 'EXC')
        continue
      got = received.get(spec['name'])
      log.add('call', op['probe'], op['scope'])
      if got is None:
        continue
      named, args, kw = got
      everything = dict(named)
      everything.update(kw)
      for p, val in everything.items():
        if isinstance(val, str) and val in rejected_vals:
          v('C11.never_injected', [],
            'call of %s under %r received %s=%r, the value of a binding '
            'attempt that the model rejects' % (op['probe'], scope, p, val))
    elif k == 'observe':
      log.add('observe', probes.stable({kk: {p: x[0] for p, x in d.items()}
                                        for kk, d in (snapshot().get('store') or {}).items()}))

  # ---- names freed by a method's move under its class are taken again -----------
  if case.get('shadow'):
    def call_method(conf_cls, label):
      received.clear()
      try:
        conf_cls().meth()
      except Exception as e:  # pylint: disable=broad-except
        return 'EXC %s: %s' % (type(e).__name__, probes.scrub(str(e))[:200])
      return received.get(label, ({},))[0].get('ma')
    try:
      gin.bind_parameter('mm.K.meth.ma', 'for-K-meth')
      # (1) a plain function called like the method, in the module the method
      # was first registered in (K.meth was 'ginsim_probes.meth' before K took
      # it over)
      g3 = {'_hook': hook, '__name__': 'ginsim_probes'}
      if case['shadow'] == 'function':
        exec('def meth(fa=0):\n'  # pylint: disable=exec-used
             "  return _hook('shadow_fn', {'fa': fa}, (), {}, None)\n", g3)
        shadow = gin.configurable(g3['meth'])
        gin.bind_parameter('ginsim_probes.meth.fa', 'for-function')
        received.clear()
        try:
          shadow()
          got = received.get('shadow_fn', ({},))[0].get('fa')
        except Exception as e:  # pylint: disable=broad-except
          got = 'EXC %s: %s' % (type(e).__name__, probes.scrub(str(e))[:200])
        if got != 'for-function':
          v('C11.never_injected', ['function-named-like-a-method'],
            'function ginsim_probes.meth (registered after the method K.meth '
            'had moved from that name to mm.K.meth) bound fa=for-function: a '
            'call gives %r' % (got,))
      got = call_method(KC, 'K.meth')
      if got != 'for-K-meth':
        v('C11.accepted_visible', ['method-after-name-reuse'],
          'K.meth bound ma=for-K-meth receives %r after a function took the '
          'name the method was first registered under' % (got,))
      # (2) a second class with a registered method of the same name
      if case['shadow'] == 'two_classes':
        exec(compile(K_SRC.replace('class K:', 'class K2:').replace(
            "'K.meth'", "'K2.meth'").replace("'K.meth2'", "'K2.meth2'"),
                     '<K2>', 'exec'), g3)
        K2 = g3['K2']
        K2.__module__ = 'ginsim_probes'
        K2.meth = gin.register(K2.meth)
        gin.register(module='mm')(K2)
        K2C = gin.get_configurable(K2)
        gin.bind_parameter('mm.K2.meth.ma', 'for-K2-meth')
        got2 = call_method(K2C, 'K2.meth')
        got1 = call_method(KC, 'K.meth')
        if got2 != 'for-K2-meth' or got1 != 'for-K-meth':
          v('C11.accepted_visible', ['same-named-methods-of-two-classes'],
            'K.meth.ma=for-K-meth, K2.meth.ma=for-K2-meth: K().meth() receives '
            '%r, K2().meth() receives %r' % (got1, got2))
      # (3) the class (and its registered method) defined a second time, as when
      # a notebook cell is run again: the new method is a method as well
      if case['shadow'] == 'redefined_class':
        with gin.config.interactive_mode():
          exec(compile(K_SRC, '<K again>', 'exec'), g3)  # pylint: disable=exec-used
          Kb = g3['K']
          Kb.__module__ = 'ginsim_probes'
          Kb.meth = gin.register(denylist=['mb'])(Kb.meth)
          gin.register(module='mm', denylist=['kb'])(Kb)
        KbC = gin.get_configurable(Kb)
        for bare in ('meth', 'ginsim_probes.meth'):
          before_b = snapshot()
          exc_b = None
          try:
            gin.bind_parameter(bare + '.ma', 'bare-after-redefinition')
          except Exception as e:  # pylint: disable=broad-except
            exc_b = e
          if exc_b is None:
            v('C11.rejected_raises', ['bare-method-after-redefinition'],
              'after K (with its registered method) was defined and registered '
              'a second time in interactive mode, %r.ma - the method without '
              'its class - was accepted' % bare)
          elif snapshot() != before_b:
            v('C11.rejection_atomic', ['bare-method-after-redefinition'],
              'rejected binding %r.ma changed the configuration' % bare)
        gin.bind_parameter('mm.K.meth.ma', 'for-redefined-K')
        got = call_method(KbC, 'K.meth')
        if got != 'for-redefined-K':
          v('C11.accepted_visible', ['redefined-class-method'],
            'mm.K.meth.ma bound after K was redefined: K().meth() receives %r'
            % (got,))
      # (4) a method bound under the name it has before its class is registered
      # keeps the binding when the class takes it over, and the freed name
      # starts empty
      if case['shadow'] == 'bound_then_rehomed':
        exec(compile(K_SRC.replace('class K:', 'class K3:').replace(
            "'K.meth'", "'K3.meth'").replace("'K.meth2'", "'K3.meth2'"),
                     '<K3>', 'exec'), g3)
        K3 = g3['K3']
        K3.__module__ = 'ginsim_probes'
        K3.meth = gin.register(K3.meth)
        gin.bind_parameter('ginsim_probes.meth.ma', 'bound-early')
        gin.register(module='mm')(K3)
        K3C = gin.get_configurable(K3)
        got = call_method(K3C, 'K3.meth')
        if got != 'bound-early':
          v('C11.accepted_visible', ['method-bound-before-its-class'],
            'meth.ma bound while the method was registered on its own; after '
            'its class K3 was registered K3().meth() receives %r' % (got,))
        try:
          q = gin.query_parameter('mm.K3.meth.ma')
        except Exception as e:  # pylint: disable=broad-except
          q = 'EXC %s' % type(e).__name__
        if q != 'bound-early':
          v('C11.accepted_visible', ['method-bound-before-its-class', 'query'],
            'query_parameter(mm.K3.meth.ma) gives %r' % (q,))
        exec('def meth(fa=0, ma=0):\n'  # pylint: disable=exec-used
             "  return _hook('late_fn', {'fa': fa, 'ma': ma}, (), {}, None)\n",
             g3)
        late = gin.configurable(g3['meth'])
        received.clear()
        try:
          late()
          got = received.get('late_fn', ({},))[0].get('ma')
        except Exception as e:  # pylint: disable=broad-except
          got = 'EXC %s: %s' % (type(e).__name__, probes.scrub(str(e))[:200])
        if got != 0:
          v('C11.never_injected', ['freed-name-inherits-binding'],
            'a function registered under the name the method had before its '
            'class took it over receives ma=%r, never bound for it' % (got,))
      log.add('shadow', case['shadow'])
    except Exception as e:  # pylint: disable=broad-except
      if not gin.config_is_locked():
        v('C11.valid_accepted', ['shadow', type(e).__name__],
          'name re-use scenario raised %s: %s' %
          (type(e).__name__, probes.scrub(str(e))[:300]))

  # ---- hooks -> finalize (last operation) ------------------------------------
  if case['hooks']:
    mappings = []
    all_ok = True
    seen_keys = set()
    conflict = False
    for items in case['hooks']:
      m = {}
      for it in items:
        spec = current[it['probe']]
        ok = cm.configurable_param(spec, it['param'])
        all_ok = all_ok and ok
        key = (it['scope'] + '/' if it['scope'] else '') + \
            cm.full_name(spec) + '.' + it['param']
        if key in m:
          continue
        if key in seen_keys:
          conflict = True
        m[key] = it['val']
      seen_keys |= set(m)
      mappings.append(m)
      gin.config.register_finalize_hook(lambda cfg, m=m: dict(m))
    before = snapshot()
    exc = None
    try:
      gin.finalize()
    except Exception as e:  # pylint: disable=broad-except
      exc = e
    log.add('finalize', type(exc).__name__ if exc else None)
    if all_ok and not conflict:
      if exc is not None:
        v('C11.valid_accepted', ['hook', type(exc).__name__],
          'finalize with valid hook mappings %r raised %r' % (mappings, exc))
      else:
        stats['hook_applied'] += 1
        for m in mappings:
          for key, val in m.items():
            try:
              got = gin.query_parameter(key)
            except Exception as e:  # pylint: disable=broad-except
              got = 'EXC %s' % type(e).__name__
            if got != val:
              v('C11.accepted_visible', ['hook'],
                'hook binding %s=%r not applied (query gives %r)' %
                (key, val, got))
    else:
      stats['hook_rejected'] += 1
      if exc is None:
        v('C11.rejected_raises', ['hook'],
          'finalize accepted hook mappings with an invalid key: %r' % mappings)
      else:
        after = snapshot()
        if after != before:
          v('C11.rejection_atomic', ['hook'],
            'finalize raised %s for hook mappings %r but changed the '
            'configuration:\n before %r\n after  %r' %
            (type(exc).__name__, mappings, before.get('store'),
             after.get('store')))
  seen = set()
  uniq = []
  for x in viol:
    t = tuple(x['sig'])
    if t not in seen:
      seen.add(t)
      uniq.append(x)
  log.add('viol', sorted(repr(x['sig']) for x in uniq))
  return {
      'violations': uniq, 'digest': log.digest(), 'key': log.digest(),
      'nontrivial': stats['rejected_nonempty'] > 0 and stats['accepted'] > 0,
      'steps': len(log.events),
      'ops': {'attempts': sum(1 for o in case['ops'] if o['op'] == 'attempt'),
              'accepted': stats['accepted'],
              'reregistrations': stats['reregistered']},
      'faults': {'rejected_attempt_with_nonempty_store':
                     stats['rejected_nonempty'],
                 'finalize_rejected_by_hook_key': stats['hook_rejected']},
      'probes': {'hook_mappings_applied': stats['hook_applied'],
                 'reregistered_in_interactive_mode': stats['reregistered'],
                 'same_object_registered_again_with_other_lists':
                     stats['relisted']},
      'sample_obs': [probes.stable(e) for e in log.events[:8]],
  }


def shrinks(case):
  yield from shrink.tree_shrinks(case, {'ops', 'hooks'}, allow_empty=True)
