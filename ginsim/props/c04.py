"""C04 - references deliver the configurable or a fresh result, in the right scope.

Operation histories with mutating consumers and call counters against a model
(DESIGN 3/C04).  Producers return a fresh token per call and log their scope at
entry; consumers verify what they receive against the expected value tree and
then mutate it (and sometimes raise).  After every call the producer counters,
query_parameter snapshots and config_str() are compared with the state before.
"""
import copy

from ginsim import cfgtext, probes, shrink, world

ID = 'C04'
LEVEL = 'exploration'
QUICK_RUNS = 12000
THOROUGH_RUNS = 300000
SHRINK_BUDGET = 250
RULE = ('run i draws from Random("<seed>/C04/<i>") 1-3 producers, 1-3 consumers '
        '(3 defaulted parameters each), bindings whose values are trees (depth '
        '<=3 of list / tuple / dict) over literals, @p, @s/p, @p(), @s/t/p() '
        'under scopes over {a,b}, and a history of 3-20 operations: consumer '
        'calls under an ambient scope with any subset of parameters overridden '
        'positionally or by keyword (the body mutates what it receives and may '
        'raise), get_bindings(resolve_references=True) whose result is mutated, '
        'query_parameter, config_str. Non-trivial = >=1 evaluated reference '
        'delivered under a non-root ambient scope and >=2 calls of one consumer '
        'with a mutation in between; distinct = digest of the event log.')
COMPONENTS = {
    'real': ['ConfigurableReference (deep-copy evaluation)', 'scoped reference '
             'wrappers', 'gin wrapper (drop of caller-supplied names, deep copy)',
             'config_parser reference syntax', 'query_parameter / config_str / '
             'get_bindings'],
    'simulated': ['consumer bodies that mutate received values and raise'],
    'stub': ['probe configurables'],
}
ASSUMPTIONS = ['single caller thread']
SC = ['a', 'b']
PARAMS = ['x', 'y', 'z']


class BodyFault(Exception):
  pass


class BaseFault(BaseException):
  """Not an Exception (KeyboardInterrupt-like)."""


def _tree(rng, nprod, depth, refs_ok=True):
  r = rng.random()
  if depth >= 3 or r < 0.35:
    k = rng.random()
    if k < 0.5 or not refs_ok:
      return {'lit': rng.choice([rng.randint(0, 99), 's%d' % rng.randint(0, 9),
                                 None, True])}
    sc = '/'.join(rng.choice(SC) for _ in range(rng.choice([0, 0, 1, 1, 2])))
    # producers live in module `pm`; producer 0 has a namesake in module `alt`
    name = 'pm.prod%d' % rng.randrange(nprod)
    if name == 'pm.prod0' and rng.random() < 0.4:
      name = 'alt.prod0'
    return {'ref': [sc, name, rng.random() < 0.65]}
  if r < 0.6:
    return {'list': [_tree(rng, nprod, depth + 1, refs_ok)
                     for _ in range(rng.randint(0, 3))]}
  if r < 0.8:
    return {'tuple': [_tree(rng, nprod, depth + 1, refs_ok)
                      for _ in range(rng.randint(1, 3))]}
  return {'dict': [[{'lit': 'k%d' % i}, _tree(rng, nprod, depth + 1, refs_ok)]
                   for i in range(rng.randint(1, 3))]}


def gen(rng, tier):
  nprod = rng.randint(1, 3)
  ncons = rng.randint(1, 3)
  binds = []
  for c in range(ncons):
    refs_ok = rng.random() < 0.75   # some consumers have literal-only bindings
    for p in PARAMS:
      for sc in ['', 'a', 'b', 'a/b']:
        if rng.random() < 0.3:
          binds.append({'scope': sc, 'cons': 'cons%d' % c, 'param': p,
                        'val': _tree(rng, nprod, 0, refs_ok)})
  ops = []
  for _ in range(rng.randint(3, 20 if tier == 'thorough' else 14)):
    r = rng.random()
    cons = 'cons%d' % rng.randrange(ncons)
    amb = [rng.choice(SC) for _ in range(rng.choice([0, 1, 1, 2, 2, 3]))]
    if r < 0.7:
      k = rng.randint(0, 2) if rng.random() < 0.4 else 0
      kw = [p for p in PARAMS[k:] if rng.random() < 0.25]
      ops.append({'op': 'call', 'cons': cons, 'ambient': amb, 'npos': k,
                  'kw': kw, 'mutate': rng.random() < 0.7,
                  'raises': rng.random() < 0.15,
                  # a producer body that itself makes a (bounded) consuming call:
                  # the same reference may be evaluated while it is being
                  # evaluated
                  'reenter': ('cons%d' % rng.randrange(ncons))
                             if rng.random() < 0.2 else None,
                  # a producer interrupted by a non-Exception BaseException
                  'base_fault': rng.random() < 0.08,
                  # gin.REQUIRED passed for parameters that have a binding
                  'req': [p for p in PARAMS if rng.random() < 0.12]})
    elif r < 0.85:
      ops.append({'op': 'get_bindings', 'cons': cons, 'ambient': amb,
                  'mutate': True})
    elif r < 0.9:
      # the configuration gets finalized (locked) in the middle of the history;
      # calls go on as before
      ops.append({'op': 'finalize'})
    else:
      ops.append({'op': 'observe'})
  dyn = None
  if rng.random() < 0.25:
    dyn = {'scope': rng.choice(['left', 'left/deep']),
           'shape': rng.choice(['flat', 'list', 'dict']),
           'method': rng.choice(['none', 'before', 'after', 'after']),
           'ambient': rng.choice([[], ['amb'], ['left']])}
  rereg = None
  if rng.random() < 0.12:
    rereg = {'scope': rng.choice(['rs', 'rs/rt']),
             'evaluate': rng.random() < 0.6, 'nested': rng.random() < 0.4,
             'clear': rng.random() < 0.5,
             'also_get_configurable': rng.random() < 0.5}
  return {'nprod': nprod, 'ncons': ncons, 'binds': binds, 'ops': ops,
          'dyn': dyn, 'rereg': rereg,
          'skip_unknown': rng.choice([None, None, 'true', 'list', 'set'])}


def _count_eval(v, out):
  if 'ref' in v:
    if v['ref'][2]:
      out[v['ref'][1]] = out.get(v['ref'][1], 0) + 1
  elif 'list' in v or 'tuple' in v:
    for x in v.get('list', v.get('tuple')):
      _count_eval(x, out)
  elif 'dict' in v:
    for k, x in v['dict']:
      _count_eval(x, out)


def run(case):
  gin = world.gin
  world.reset()
  log = probes.Log()
  viol = []
  counters = {}
  prod_calls = []     # (name, scope at entry, serial)
  ctx = {'expect': None, 'mutate': False, 'raises': False, 'ambient': []}
  stats = {'eval_nonroot': 0, 'mutations': 0, 'callables_checked': 0,
           'body_raises': 0, 'caller_override_of_ref': 0}

  def v(oracle, disc, msg):
    if len(viol) < 12:
      viol.append({'oracle': oracle, 'sig': [ID, oracle] + list(disc),
                   'msg': msg})

  root_callables = {}

  def verify(v_spec, got, ambient, path):
    """Compares a delivered object with the expected value tree."""
    if 'lit' in v_spec:
      if got != v_spec['lit'] or type(got) is not type(v_spec['lit']):
        v('C04.delivered_value', ['literal'],
          '%s: received %r, expected literal %r' % (path, got, v_spec['lit']))
      return
    if 'ref' in v_spec:
      sc, name, ev = v_spec['ref']
      want_scope = sc.split('/') if sc else ambient
      if ev:
        if not isinstance(got, probes.Tok) or got.label != name:
          v('C04.delivered_value', ['evaluated-ref'],
            '%s: expected a fresh result of %s, received %r' % (path, name, got))
          return
        seen_scope = got.extra
        if seen_scope != want_scope:
          v('C04.reference_scope', ['scoped' if sc else 'unscoped'],
            '%s: @%s%s() ran under scope %r, expected %r (ambient %r)' %
            (path, sc + '/' if sc else '', name, seen_scope, want_scope, ambient))
        if ambient:
          stats['eval_nonroot'] += 1
      else:
        if not callable(got):
          v('C04.delivered_value', ['unevaluated-ref'],
            '%s: expected the configurable %s, received %r' % (path, name, got))
          return
        if not sc:
          if got is not root_callables[name]:
            v('C04.delivered_value', ['unevaluated-ref-identity'],
              '%s: @%s delivered %r, not the registry\'s configurable' %
              (path, name, got))
        else:
          # A scoped reference runs under exactly its scope from any ambient.
          ctx['pending_callable_checks'].append((got, name, sc.split('/'), path))
      return
    kind = 'list' if 'list' in v_spec else 'tuple' if 'tuple' in v_spec else 'dict'
    if kind in ('list', 'tuple'):
      items = v_spec[kind]
      if type(got) is not (list if kind == 'list' else tuple) or \
          len(got) != len(items):
        v('C04.delivered_value', ['container'],
          '%s: received %r, expected a %s of %d items' %
          (path, got, kind, len(items)))
        return
      for i, (s, g) in enumerate(zip(items, got)):
        verify(s, g, ambient, '%s[%d]' % (path, i))
    else:
      items = v_spec['dict']
      if type(got) is not dict or list(got) != [k['lit'] for k, _ in items]:
        v('C04.delivered_value', ['container'],
          '%s: received %r, expected a dict with keys %r' %
          (path, got, [k['lit'] for k, _ in items]))
        return
      for k, s in items:
        verify(s, got[k['lit']], ambient, '%s[%r]' % (path, k['lit']))

  def mutate(obj, depth=0):
    """Damages everything mutable that was received."""
    if isinstance(obj, list):
      for x in obj:
        mutate(x, depth + 1)
      obj.append('MUTATED')
      if len(obj) > 2:
        obj.pop(0)
      stats['mutations'] += 1
    elif isinstance(obj, dict):
      for x in list(obj.values()):
        mutate(x, depth + 1)
      obj['MUTATED'] = 1
      if len(obj) > 2:
        del obj[next(iter(obj))]
      stats['mutations'] += 1
    elif isinstance(obj, tuple):
      for x in obj:
        mutate(x, depth + 1)
    elif isinstance(obj, probes.Tok):
      obj.label = 'MUTATED-' + obj.label

  def hook(name, named, args, kwargs, self_):
    if name.startswith('prod') or name.startswith('altprod'):
      name = ('alt.prod0' if name.startswith('altprod') else 'pm.' + name)
      counters[name] = counters.get(name, 0) + 1
      if ctx.get('base_fault') == name and not ctx.get('base_fault_done'):
        ctx['base_fault_done'] = True
        raise BaseFault('interrupted inside a producer')
      t = log.tok(name)
      t.extra = gin.current_scope()
      prod_calls.append((name, t.extra, t.serial))
      if ctx.get('reenter') and not ctx.get('reentered'):
        ctx['reentered'] = True
        saved = (ctx['expect'], ctx['mutate'], ctx['raises'], ctx['caller'])
        ctx.update({'expect': None, 'mutate': False, 'raises': False,
                    'caller': {}})
        try:
          with gin.config_scope(None):
            cons[ctx['reenter']]()
        except Exception as e:  # pylint: disable=broad-except
          ctx['reenter_exc'] = e
        (ctx['expect'], ctx['mutate'], ctx['raises'], ctx['caller']) = saved
      return t
    exp = ctx['expect']
    ctx['ran'] = True
    if exp is not None:
      for p in PARAMS:
        if p in exp:
          verify(exp[p], named[p], ctx['ambient'], '%s.%s' % (name, p))
        elif p in ctx['caller']:
          if named[p] is not ctx['caller'][p]:
            v('C04.caller_value', [],
              '%s.%s: caller passed %r, body received %r' %
              (name, p, ctx['caller'][p], named[p]))
        elif named[p] is not None:
          v('C04.delivered_value', ['default'],
            '%s.%s: expected the default None, received %r' % (name, p,
                                                               named[p]))
    if ctx['mutate']:
      for p in PARAMS:
        if p not in ctx['caller']:
          mutate(named[p])
    if ctx['raises']:
      stats['body_raises'] += 1
      raise BodyFault('consumer fault after mutating')
    return None

  for i in range(case['nprod']):
    obj, _ = probes.compile_probe({'name': 'prod%d' % i, 'kind': 'fn',
                                   'params': []}, hook)
    probes.register_probe({'name': 'prod%d' % i, 'module': 'pm'}, obj)
    root_callables['pm.prod%d' % i] = gin.get_configurable('pm.prod%d' % i)
  alt, _ = probes.compile_probe({'name': 'altprod0', 'kind': 'fn', 'params': []},
                                hook)
  probes.register_probe({'name': 'altprod0', 'regname': 'prod0', 'module': 'alt'},
                        alt)
  root_callables['alt.prod0'] = gin.get_configurable('alt.prod0')
  cons = {}
  for i in range(case['ncons']):
    obj, _ = probes.compile_probe(
        {'name': 'cons%d' % i, 'kind': 'fn',
         'params': [{'n': p, 'k': 'def', 'd': None} for p in PARAMS]}, hook)
    cons['cons%d' % i] = probes.register_probe({'name': 'cons%d' % i}, obj)
  lines = []
  store = {}
  for b in case['binds']:
    lines.append('%s%s.%s = %s' % (b['scope'] + '/' if b['scope'] else '',
                                   b['cons'], b['param'],
                                   cfgtext.render_value(b['val'])))
    store.setdefault((b['scope'], b['cons']), {})[b['param']] = b['val']
  # (every name in the text is known: skip_unknown, in any form, changes nothing)
  skip = {None: None, 'true': True, 'list': ['no_such_name_c04'],
          'set': {'no_such_name_c04', 'nor.this'}}[case.get('skip_unknown')]
  if skip is None:
    gin.parse_config('\n'.join(lines))
  else:
    gin.parse_config('\n'.join(lines), skip_unknown=skip)

  def applicable(cname, amb):
    out = {}
    for i in range(len(amb) + 1):
      out.update(store.get(('/'.join(amb[:i]), cname), {}))
    return out

  def snapshot():
    snap = {}
    for (scope, cname), d in sorted(store.items()):
      for p in sorted(d):
        key = (scope + '/' if scope else '') + cname + '.' + p
        try:
          snap[key] = probes.stable(gin.query_parameter(key))
        except Exception as e:  # pylint: disable=broad-except
          snap[key] = 'EXC %s' % type(e).__name__
    try:
      snap['__config_str__'] = gin.config_str()
    except Exception as e:  # pylint: disable=broad-except
      snap['__config_str__'] = 'EXC %s: %s' % (type(e).__name__, e)
    return snap

  pristine = snapshot()
  # The pristine snapshot itself must show what was bound.
  for b in case['binds']:
    pass
  calls_per_cons = {}
  for op in case['ops']:
    k = op['op']
    before_counts = dict(counters)
    if k == 'call':
      app = applicable(op['cons'], op['ambient'])
      caller = {}
      req = [p for p in op.get('req', []) if p in app]
      for p in PARAMS[:op['npos']]:
        caller[p] = probes.Tok(0, 'caller-' + p)
      for p in op['kw']:
        caller[p] = probes.Tok(0, 'caller-' + p)
      for p in req:
        caller.pop(p, None)   # marked REQUIRED: gin fills it from the binding
      supplied = {p: val for p, val in app.items() if p not in caller}
      want_counts = {}
      for val in supplied.values():
        _count_eval(val, want_counts)
      for p in caller:
        if p in app:
          c2 = {}
          _count_eval(app[p], c2)
          if c2:
            stats['caller_override_of_ref'] += 1
      ctx.update({'expect': supplied, 'mutate': op['mutate'],
                  'raises': op['raises'], 'ambient': list(op['ambient']),
                  'caller': caller, 'ran': False,
                  'pending_callable_checks': [],
                  'reenter': op.get('reenter') if want_counts else None,
                  'reentered': False, 'reenter_exc': None})
      evaluated = sorted(want_counts)
      if op.get('base_fault') and evaluated and not ctx['reenter']:
        ctx['base_fault'] = evaluated[0]
        ctx['base_fault_done'] = False
      else:
        ctx['base_fault'] = None
      if ctx['reenter']:
        # the nested call (under the root scope) evaluates its own references
        for val in applicable(ctx['reenter'], []).values():
          _count_eval(val, want_counts)
      exc = None
      try:
        with gin.config_scope(list(op['ambient']) if op['ambient'] else None):
          args = [gin.REQUIRED if p in req else caller[p]
                  for p in PARAMS[:op['npos']]]
          kwargs = {p: (gin.REQUIRED if p in req else caller[p])
                    for p in op['kw']}
          for p in req:
            if p not in PARAMS[:op['npos']] and p not in kwargs:
              kwargs[p] = gin.REQUIRED
          cons[op['cons']](*args, **kwargs)
      except BodyFault as e:
        exc = e
      except BaseFault as e:
        exc = e
      except Exception as e:  # pylint: disable=broad-except
        exc = e
        v('C04.call_succeeds', [type(e).__name__],
          'call %r raised %s: %s' % (op, type(e).__name__,
                                     probes.scrub(str(e))[:300]))
      ctx['expect'] = None
      ctx['mutate'] = False
      ctx['raises'] = False
      if ctx.get('reenter_exc') is not None:
        v('C04.reentrant_evaluation', [type(ctx['reenter_exc']).__name__],
          'call %r: a consuming call made from inside a producer body (while a '
          'reference to that producer is being evaluated) raised %s: %s' %
          (op, type(ctx['reenter_exc']).__name__,
           probes.scrub(str(ctx['reenter_exc']))[:300]))
      ctx['reenter'] = None
      interrupted = ctx.get('base_fault') and ctx.get('base_fault_done')
      ctx['base_fault'] = None
      if interrupted:
        # The evaluation was interrupted by a non-Exception: it must reach the
        # caller, and the thread must be back in the scope it was in.
        if not isinstance(exc, BaseFault):
          v('C04.call_succeeds', ['base-fault-lost'],
            'call %r: the BaseException raised inside a producer reached the '
            'caller as %r' % (op, exc))
        if gin.current_scope() != []:
          v('C04.scope_restored_after_interrupt', [],
            'call %r: after the interrupted evaluation the active scope is %r' %
            (op, gin.current_scope()))
          world.config._SCOPE_MANAGER = type(world.config._SCOPE_MANAGER)()  # pylint: disable=protected-access
        log.add('call-interrupted', op['cons'])
        after = snapshot()
        if after != pristine:
          v('C04.store_immutable', ['interrupt'], 'configuration changed')
          pristine = after
        continue
      if not ctx['ran'] and exc is None:
        v('C04.call_succeeds', ['body-not-run'], 'call %r: body did not run' % op)
      got_counts = {n: counters.get(n, 0) - before_counts.get(n, 0)
                    for n in set(counters) | set(want_counts)}
      got_counts = {n: c for n, c in got_counts.items() if c}
      if got_counts != want_counts:
        over = any(p in app and _has_eval(app[p]) for p in caller)
        how = 'positional' if any(
            p in app and _has_eval(app[p]) for p in PARAMS[:op['npos']]) else \
            'keyword'
        if over and sum(got_counts.values()) > sum(want_counts.values()):
          v('C04.not_called_when_caller_supplies', [how],
            'call %r: producers ran %r times, expected %r (a parameter bound to '
            'an evaluated reference was supplied by the caller)' %
            (op, got_counts, want_counts))
        else:
          v('C04.evaluated_once_per_occurrence', [],
            'call %r: producers ran %r times, expected %r' %
            (op, got_counts, want_counts))
      # fresh results: serials delivered in this call are pairwise distinct
      # (guaranteed by construction of the counters) - checked via counts.
      for fn, name, scope, path in ctx['pending_callable_checks']:
        stats['callables_checked'] += 1
        for other in ([], ['b', 'a']):
          n0 = len(prod_calls)
          try:
            with gin.config_scope(other if other else None):
              fn()
          except Exception as e:  # pylint: disable=broad-except
            v('C04.scoped_callable', [type(e).__name__],
              '%s: calling the delivered scoped reference raised %r' % (path, e))
            continue
          if len(prod_calls) != n0 + 1 or prod_calls[-1][0] != name or \
              prod_calls[-1][1] != scope:
            v('C04.reference_scope', ['scoped-callable'],
              '%s: delivered @%s/%s called under ambient %r ran %r, expected '
              'exactly scope %r' % (path, '/'.join(scope), name, other,
                                    prod_calls[n0:], scope))
      calls_per_cons[op['cons']] = calls_per_cons.get(op['cons'], 0) + 1
      log.add('call', op['cons'], op['ambient'], op['npos'], op['kw'],
              sorted(got_counts.items()), type(exc).__name__ if exc else None)
    elif k == 'finalize':
      try:
        gin.finalize()
        stats['finalized'] = stats.get('finalized', 0) + 1
      except RuntimeError:
        pass   # finalized already
      except Exception as e:  # pylint: disable=broad-except
        v('C04.call_succeeds', ['finalize', type(e).__name__],
          'finalize() raised %s: %s' % (type(e).__name__,
                                        probes.scrub(str(e))[:200]))
      log.add('finalize', gin.config_is_locked())
      pristine = snapshot()
      continue
    elif k == 'get_bindings':
      app = applicable(op['cons'], op['ambient'])
      want_counts = {}
      for val in app.values():
        _count_eval(val, want_counts)
      ctx['pending_callable_checks'] = []
      try:
        with gin.config_scope(list(op['ambient']) if op['ambient'] else None):
          got = gin.get_bindings(op['cons'])
        if set(got) != set(app):
          v('C04.get_bindings', ['keys'],
            'get_bindings(%s) under %r has keys %r, expected %r' %
            (op['cons'], op['ambient'], sorted(got), sorted(app)))
        else:
          for p in app:
            verify(app[p], got[p], list(op['ambient']),
                   'get_bindings(%s).%s' % (op['cons'], p))
        for x in got.values():
          mutate(x)
        got['MUTATED'] = 1
      except Exception as e:  # pylint: disable=broad-except
        v('C04.get_bindings', [type(e).__name__],
          'get_bindings raised %s: %s' % (type(e).__name__,
                                          probes.scrub(str(e))[:200]))
      got_counts = {n: counters.get(n, 0) - before_counts.get(n, 0)
                    for n in counters}
      got_counts = {n: c for n, c in got_counts.items() if c}
      if got_counts != want_counts:
        v('C04.evaluated_once_per_occurrence', ['get_bindings'],
          'get_bindings(%s) under %r: producers ran %r, expected %r' %
          (op['cons'], op['ambient'], got_counts, want_counts))
      log.add('get_bindings', op['cons'], op['ambient'])
    after = snapshot()
    if after != pristine:
      diff = sorted(kk for kk in pristine if pristine[kk] != after.get(kk))
      v('C04.store_immutable', [k],
        'after %r the configuration changed at %r:\n before %r\n after  %r' %
        (op, diff[:3], [pristine[d] for d in diff[:2]],
         [after.get(d) for d in diff[:2]]))
      pristine = after
  if case.get('dyn') and not viol:
    _dynamic_scoped_refs(case['dyn'], v, log)
  if case.get('rereg') and not viol:
    _reregistered_scoped_ref(case['rereg'], v, log)
  seen = set()
  uniq = []
  for x in viol:
    t = tuple(x['sig'])
    if t not in seen:
      seen.add(t)
      uniq.append(x)
  log.add('viol', sorted(repr(x['sig']) for x in uniq))
  return {
      'violations': uniq, 'digest': log.digest(), 'key': log.digest(),
      'nontrivial': stats['eval_nonroot'] > 0 and stats['mutations'] > 0 and
                    any(n >= 2 for n in calls_per_cons.values()),
      'steps': len(log.events),
      'ops': {'calls': sum(calls_per_cons.values()),
              'producer_calls': sum(counters.values())},
      'faults': {'body_raises_after_mutation': stats['body_raises'],
                 'received_value_mutated': stats['mutations']},
      'probes': {'scoped_callables_checked': stats['callables_checked'],
                 'caller_override_of_evaluated_ref':
                     stats['caller_override_of_ref'],
                 'evaluated_under_nonroot_ambient': stats['eval_nonroot']},
      'sample_obs': {'config': lines[:6]},
  }


def _reregistered_scoped_ref(rr, v, log):
  """A scoped reference written after its target was registered anew (as when
  a notebook cell is run again) delivers the new registration."""
  gin = world.gin
  world.reset()
  got = []

  def make(tag):
    def rrprod(z='dz'):
      return (tag, z, tuple(gin.current_scope()))
    return rrprod

  def rruse(val=None):
    got.append(val)
  use = gin.configurable('rruse', module='cm')(rruse)
  gin.configurable('rrprod', module='pm')(make('first'))
  ref = '@%s/pm.rrprod%s' % (rr['scope'], '()' if rr['evaluate'] else '')
  text = 'cm.rruse.val = %s\n%s/pm.rrprod.z = 7\n' % (
      ref if not rr['nested'] else '[1, {"k": %s}]' % ref, rr['scope'])

  def delivered():
    del got[:]
    use()
    x = got[0]
    if rr['nested']:
      x = x[1]['k']
    return x if rr['evaluate'] else x()
  try:
    gin.parse_config(text)
    first = delivered()
    if rr['also_get_configurable']:
      gin.get_configurable('%s/pm.rrprod' % rr['scope'])()
    with gin.config.interactive_mode():
      gin.configurable('rrprod', module='pm')(make('second'))
    if rr['clear']:
      gin.clear_config()
    gin.parse_config(text)
    second = delivered()
    via_name = gin.get_configurable('%s/pm.rrprod' % rr['scope'])()
  except Exception as e:  # pylint: disable=broad-except
    v('C04.call_succeeds', ['reregistered-target', type(e).__name__],
      'scoped reference to a re-registered configurable (%r) raised %s: %s' %
      (rr, type(e).__name__, probes.scrub(str(e))[:300]))
    return
  log.add('rereg', rr, first, second, via_name)
  scope_t = tuple(rr['scope'].split('/'))
  if first != ('first', 7, scope_t):
    v('C04.delivered_value', ['reregistered-target', 'first'],
      '%s delivered %r, expected the result of the registered function under '
      'scope %s with z=7' % (ref, first, rr['scope']))
  for what, x in (('the reference written afterwards', second),
                  ('get_configurable by scoped name', via_name)):
    if x != ('second', 7, scope_t):
      v('C04.delivered_value', ['reregistered-target', 'stale'],
        'pm.rrprod was registered again (interactive mode)%s and %s parsed '
        'again: %s delivers %r, expected the new function under scope %s' %
        (', clear_config() called' if rr['clear'] else '', ref, what, x,
         rr['scope']))
      break


def _dynamic_scoped_refs(d, v, log):
  """Scoped references under dynamic registration, where naming a method of an
  already referenced class re-registers that class in the middle of the parse."""
  gin = world.gin
  world.reset()
  built = []

  class Cls(object):

    def __init__(self, a=0):
      built.append((gin.current_scope_str(), a))

    def meth(self, mp=0):
      return mp

  def consume(x=None, y=None):
    return (x, y)
  Cls.__module__ = consume.__module__ = 'vm4'
  Cls.__qualname__ = 'Cls'
  Cls.meth.__qualname__ = 'Cls.meth'
  Cls.meth.__module__ = 'vm4'
  consume.__qualname__ = 'consume'
  probes.plant_module('vm4', {'Cls': Cls, 'consume': consume})
  rs = d['scope']
  ref_eval = '@%s/vm4.Cls()' % rs
  ref_call = '@%s/vm4.Cls' % rs
  shapes = {'flat': (ref_eval, ref_call),
            'list': ('[%s, 1]' % ref_eval, '[%s]' % ref_call),
            'dict': ("{'k': %s}" % ref_eval, "{'k': (%s,)}" % ref_call)}
  vx, vy = shapes[d['shape']]
  lines = ['from __gin__ import dynamic_registration', 'import vm4',
           'vm4.consume.x = %s' % vx, 'vm4.consume.y = %s' % vy,
           '%s/vm4.Cls.a = 10' % rs, 'vm4.Cls.a = 1']
  method_line = 'vm4.Cls.meth.mp = 3'
  if d['method'] == 'before':
    lines.insert(2, method_line)
  elif d['method'] == 'after':
    lines.append(method_line)
  try:
    gin.parse_config('\n'.join(lines))
    with gin.config_scope(d['ambient'] or None):
      x, y = gin.get_configurable(consume)()
    n_eval = len(built)
    inner = y
    while not callable(inner):
      inner = inner['k'] if isinstance(inner, dict) else inner[0]
    with gin.config_scope(d['ambient'] or None):
      inner()
  except Exception as e:  # pylint: disable=broad-except
    v('C04.call_succeeds', ['dynamic', type(e).__name__],
      'scoped references under dynamic registration %r raised %s: %s' %
      (lines, type(e).__name__, probes.scrub(str(e))[:300]))
    return
  log.add('dyn', d, built)
  if n_eval != 1 or len(built) != 2:
    v('C04.evaluated_once_per_occurrence', ['dynamic'],
      '%r: the class was constructed %r times' % (lines, built))
    return
  for what, (scope, a) in zip(('evaluated reference', 'delivered callable'),
                              built):
    if scope != rs or a != 10:
      v('C04.reference_scope', ['dynamic', d['method']],
        'config\n%s\n%s %s ran under scope %r (a=%r) with ambient scope %r, '
        'expected exactly %r (a=10)' %
        ('\n'.join(lines), what, ref_eval if what[0] == 'e' else ref_call,
         scope, a, d['ambient'], rs))


def _has_eval(v):
  c = {}
  _count_eval(v, c)
  return bool(c)


def shrinks(case):
  if case.get('rereg'):
    c = copy.deepcopy(case)
    c['rereg'] = None
    yield c
  if case.get('dyn'):
    c = copy.deepcopy(case)
    c['dyn'] = None
    yield c
  yield from shrink.tree_shrinks(case, {'ops', 'binds', 'list', 'tuple'},
                                 allow_empty=True)
