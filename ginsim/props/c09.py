"""C09 - config scopes nest, are restored on every exit path, are thread-private.

Thread-schedule simulation (DESIGN 3/C09).  Each of 1-4 simulated threads runs a
generated tree of nested scope blocks (valid and invalid entries; normal and
exceptional exits) with observations, probe calls, scoped get_configurable
calls and scoped references inside; threads may spawn threads from inside a
scope.  A per-thread model stack is the oracle, checked at every observation.
"""
import random
import re

from ginsim import probes, sched, shrink, world

ID = 'C09'
LEVEL = 'exploration'
QUICK_RUNS = 5000
THOROUGH_RUNS = 150000
SHRINK_BUDGET = 200
RULE = ('run i draws from Random("<seed>/C09/<i>"): 1-4 threads, each a tree of '
        '<=25 nested config_scope blocks (entry: name, a/b shorthand, list, '
        'captured list, None, "", 7 kinds of invalid value; exit: normal or '
        'injected exception) with observations, probe calls (optionally '
        'raising, optionally re-entering gin from the body), scoped '
        'get_configurable and scoped/unscoped references; one schedule policy. '
        'Non-trivial = at least one nested block plus (>=1 pre-emption for '
        'multi-thread runs, or >=1 exceptional exit for single-thread runs); '
        'distinct = digest of (programs, switch list).')
COMPONENTS = {
    'real': ['gin.config.config_scope', '_ScopeManager (threading.local)',
             'scoped wrappers of get_configurable / ConfigurableReference',
             'gin wrapper', 'threading.Thread'],
    'simulated': ['thread scheduler (baton passing over sys.settrace line '
                  'events)', 'locks as seen by gin'],
    'stub': ['probe configurables'],
}
ASSUMPTIONS = ['pre-emption at source-line granularity inside gin',
               'binding store quiescent while threads run']

ALPHA = ['a', 'b', 'c']
NAME_RE = re.compile(r'^([a-zA-Z_]\w*\.)*[a-zA-Z_]\w*$')


class SimFault(Exception):
  pass


class SimBaseFault(BaseException):
  """KeyboardInterrupt-like: not an Exception."""


class _TruthRaises:

  def __bool__(self):
    raise SimFault('truth value requested')

  def __eq__(self, other):
    raise SimFault('equality requested')

  __hash__ = None


# ---------------------------------------------------------------------------
# Generation
# ---------------------------------------------------------------------------

def _gen_entry(rng):
  r = rng.random()
  if r < 0.06:
    # the context-manager object is created under another scope than the one it
    # is entered in: the name is appended to the scope active at ENTRY
    return {'kind': 'str', 'val': rng.choice(ALPHA), 'prebuilt': True}
  if r < 0.35:
    return {'kind': 'str', 'val': rng.choice(ALPHA)}
  if r < 0.5:
    return {'kind': 'str', 'val': '/'.join(rng.choice(ALPHA)
                                            for _ in range(rng.randint(2, 3)))}
  if r < 0.62:
    return {'kind': 'list', 'val': [rng.choice(ALPHA)
                                    for _ in range(rng.randint(0, 3))]}
  if r < 0.68:
    return {'kind': 'captured'}
  if r < 0.74:
    return {'kind': 'none'}
  if r < 0.8:
    return {'kind': 'empty'}
  if r < 0.84:
    return {'kind': 'str', 'val': rng.choice(['a.b', 'm.n/' + rng.choice(ALPHA)])}
  return {'kind': 'invalid',
          'val': rng.choice(['int', 'bad name', 'a//b', 'tuple', 'list_bad',
                             '/a', 'a/', 'truth_raises', 'float', 'dict',
                             'bytes', 'list_int', 'trailing_newline',
                             'list_trailing_newline'])}


def _gen_ops(rng, depth, budget, allow_spawn, nrefs):
  ops = []
  n = rng.randint(1, 4)
  for _ in range(n):
    if budget[0] <= 0:
      break
    r = rng.random()
    if r < 0.3 and depth < 5:
      budget[0] -= 1
      ops.append({'op': 'block', 'entry': _gen_entry(rng),
                  'exit': rng.choice(['raise', 'raise', 'raise_base'])
                          if rng.random() < 0.25 else 'normal',
                  'body': _gen_ops(rng, depth + 1, budget, allow_spawn, nrefs)})
    elif r < 0.47:
      ops.append({'op': 'obs'})
    elif r < 0.485:
      # operations that fail half-way through gin's own scope handling: a call
      # whose binding refers to a macro nobody defined, and a finalize() that
      # a hook rejects (for that very macro)
      ops.append({'op': rng.choice(['unset_macro', 'finalize_fails'])})
    elif r < 0.5:
      # the configuration is cleared (and parsed again at once) in the middle of
      # whatever scopes are open: the scopes are not part of the configuration
      ops.append({'op': 'clear_reparse',
                  'constants': rng.random() < 0.3})
    elif r < 0.68:
      op = {'op': 'call', 'raises': rng.random() < 0.2}
      if rng.random() < 0.25 and depth < 4:
        op['inner'] = _gen_ops(rng, depth + 2, budget, False, nrefs)
      ops.append(op)
    elif r < 0.8:
      sc = '/'.join(rng.choice(ALPHA) for _ in range(rng.randint(1, 2)))
      op = {'op': 'getcfg', 'scope': sc, 'raises': rng.random() < 0.2}
      if rng.random() < 0.25 and depth < 4:
        op['inner'] = _gen_ops(rng, depth + 2, budget, False, nrefs)
      ops.append(op)
    elif r < 0.93:
      op = {'op': 'ref', 'i': rng.randrange(nrefs), 'raises': rng.random() < 0.15}
      if rng.random() < 0.3 and depth < 4:
        op['inner'] = _gen_ops(rng, depth + 2, budget, False, nrefs)
      ops.append(op)
    elif allow_spawn and budget[1] > 0:
      budget[1] -= 1
      ops.append({'op': 'spawn',
                  'body': _gen_ops(rng, 1, budget, False, nrefs)})
    else:
      ops.append({'op': 'obs'})
  return ops


def gen(rng, tier):
  bound = {}
  for _ in range(rng.randint(1, 6)):
    path = '/'.join(rng.choice(ALPHA) for _ in range(rng.randint(0, 3)))
    bound[path] = 'v:' + path
  refs = []
  for i in range(rng.randint(1, 3)):
    sc = '/'.join(rng.choice(ALPHA) for _ in range(rng.randint(0, 2)))
    refs.append({'scope': sc, 'evaluate': rng.random() < 0.6})
  nthreads = rng.choice([1, 2, 2, 3, 3, 4])
  threads = []
  spawn_budget = 4 - nthreads
  for _ in range(nthreads):
    budget = [rng.randint(3, 25 if tier == 'thorough' else 12), spawn_budget]
    ops = _gen_ops(rng, 0, budget, True, len(refs))
    if rng.random() < 0.15:
      # The thread ends while a scope it entered is still open (a suspended
      # generator holds the with-block): nothing of it may be visible to a
      # thread that starts later.
      ops.append({'op': 'leak', 'val': rng.choice(ALPHA)})
      if rng.random() < 0.7:
        # ... and some thread is started late, after others have finished
        threads_late = {'op': 'spawn', 'body': [{'op': 'obs'}, {'op': 'call',
                                                                'raises': False}]}
        budget[1] -= 1
        ops.insert(rng.randint(0, len(ops) - 1), threads_late)
    threads.append({'ops': ops})
    spawn_budget = max(budget[1], 0)
  r = rng.random()
  if nthreads == 1 or r < 0.08:
    pol = {'kind': 'seq'}
  elif r < 0.5:
    pol = {'kind': 'rand', 'p': rng.choice([0.02, 0.05, 0.1, 0.3, 0.7])}
  elif r < 0.75:
    pol = {'kind': 'target', 'k': rng.choice([1, 2, 3])}
  else:
    pol = {'kind': 'pct', 'd': rng.choice([1, 2, 3])}
  return {'bound': bound, 'refs': refs, 'threads': threads,
          'body_yields': rng.randint(0, 2),
          # worker pools give all their threads one name
          'same_thread_names': rng.random() < 0.4,
          'sched': {'policy': pol, 'seed': rng.getrandbits(32)}}


# ---------------------------------------------------------------------------
# Model
# ---------------------------------------------------------------------------

def model_entry(entry, cur, captured):
  """Returns ('ok', new_scope) or ('invalid', None)."""
  k = entry['kind']
  if k == 'str':
    new = cur + entry['val'].split('/')
  elif k == 'list':
    new = list(entry['val'])
  elif k == 'captured':
    new = list(captured) if captured is not None else []
  elif k in ('none', 'empty'):
    new = []
  else:
    return 'invalid', None
  if not all(NAME_RE.match(c) for c in new):
    return 'invalid', None
  return 'ok', new


def model_value(bound, scope):
  val = 'dflt'
  for i in range(len(scope) + 1):
    key = '/'.join(scope[:i])
    if key in bound:
      val = bound[key]
  return val


def _entry_object(entry, captured):
  k = entry['kind']
  if k == 'str':
    return entry['val']
  if k == 'list':
    return list(entry['val'])
  if k == 'captured':
    return captured if captured is not None else []
  if k == 'none':
    return None
  if k == 'empty':
    return ''
  v = entry['val']
  return {'int': 4, 'bad name': 'bad name', 'a//b': 'a//b', 'tuple': ('a',),
          'list_bad': ['a', 'b c'], '/a': '/a', 'a/': 'a/',
          'truth_raises': _TruthRaises(), 'float': 1.5, 'dict': {'a': 1},
          'bytes': b'a', 'list_int': ['a', 3], 'trailing_newline': 'a\n',
          'list_trailing_newline': ['a', 'b\n']}[v]


# ---------------------------------------------------------------------------
# Execution
# ---------------------------------------------------------------------------

def _execute(case, policy, replay, hint):
  gin = world.gin
  viol = []
  events = {}
  counters = {'exc_exit': 0, 'invalid_entry': 0, 'nested': 0, 'spawn': 0,
              'reentry': 0, 'obs': 0}

  def v(oracle, disc, msg):
    if len(viol) < 20:
      viol.append({'oracle': oracle, 'sig': [ID, oracle] + list(disc),
                   'msg': msg})

  tls = {}   # tid -> per-thread harness state
  leaked = []

  def cur_state():
    s = world.CURRENT_SCHED
    return tls[s.thread_state().tid]

  def hook(name, named, args, kwargs, self_):
    s = world.CURRENT_SCHED
    st = cur_state()
    seen_scope = gin.current_scope()
    for _ in range(case.get('body_yields', 0)):
      s.yield_point('body')
    if name == 'f0':
      with s.atomic():
        pending = st['pending']
        st['pending'] = None
      mine = (seen_scope, named.get('p'))
      st['last_f0'] = mine
      if pending is not None:
        if pending.get('inner'):
          counters['reentry'] += 1
          run_ops(pending['inner'], st, pending['expect_scope'])
          # After the nested work the body is still in its own scope.
          again = gin.current_scope()
          if again != pending['expect_scope']:
            v('C09.restore', ['after-reentry'],
              'thread %d: inside a probe body entered under %r, after nested '
              'scope work the active scope is %r' %
              (st['tid'], pending['expect_scope'], again))
        st['last_f0'] = mine   # nested calls overwrote it
        if pending.get('raises'):
          raise SimFault('probe fault')
      return 'f0-result'
    return dict(named)

  f0, _ = probes.compile_probe(
      {'name': 'f0', 'kind': 'fn',
       'params': [{'n': 'p', 'k': 'def', 'd': 'dflt'}]}, hook)
  f0c = probes.register_probe({'name': 'f0'}, f0)
  consumers = []
  lines = []
  for path, val in sorted(case['bound'].items()):
    lines.append('%sf0.p = %r' % (path + '/' if path else '', val))
  for i, r in enumerate(case['refs']):
    cobj, _ = probes.compile_probe(
        {'name': 'c%d' % i, 'kind': 'fn',
         'params': [{'n': 'x', 'k': 'def', 'd': None}]}, hook)
    consumers.append(probes.register_probe({'name': 'c%d' % i}, cobj))
    lines.append('c%d.x = @%sf0%s' % (i, r['scope'] + '/' if r['scope'] else '',
                                      '()' if r['evaluate'] else ''))
  mobj, _ = probes.compile_probe(
      {'name': 'cmac', 'kind': 'fn',
       'params': [{'n': 'x', 'k': 'def', 'd': None}]}, hook)
  cmac = probes.register_probe({'name': 'cmac'}, mobj)
  lines.append('cmac.x = [%NEVER_DEFINED_C09, 1]')
  config_text = '\n'.join(lines)
  gin.parse_config(config_text)
  bound = case['bound']

  def check_scope(st, expect, where, detail=None):
    counters['obs'] += 1
    got = gin.current_scope()
    got_str = gin.current_scope_str()
    ev = st['events']
    ev.append((where, got))
    if st.get('tainted'):
      return False   # only the first divergence of a thread is reported
    if got != expect or got_str != '/'.join(expect):
      st['tainted'] = True
      if where.startswith('after-'):
        oracle = 'C09.restore'
        disc = ['after-call' if where.split('-')[1] in ('call', 'getcfg', 'ref')
                else where]
      else:
        oracle, disc = 'C09.scope_view', []
      v(oracle, disc,
        'thread %d %s%s: active scope is %r (%r), model says %r' %
        (st['tid'], where, ' (%s)' % detail if detail else '', got, got_str,
         expect))
      return False
    return True

  def expect_call(st, body_scope, what, op):
    """Checks what the last f0 call saw."""
    seen = st.get('last_f0')
    st['last_f0'] = None
    if st.get('tainted'):
      return
    if seen is None:
      v('C09.call_view', [what, 'body-not-run'],
        'thread %d %s: probe body did not run' % (st['tid'], what))
      return
    scope_seen, val = seen
    st['events'].append((what, scope_seen, val))
    if scope_seen != body_scope:
      v('C09.call_view', [what, 'scope'],
        'thread %d %s: probe ran under scope %r, model says %r' %
        (st['tid'], what, scope_seen, body_scope))
    elif val != model_value(bound, body_scope):
      v('C09.call_view', [what, 'binding'],
        'thread %d %s under %r: probe received %r, model says %r' %
        (st['tid'], what, body_scope, val, model_value(bound, body_scope)))

  def guarded(st, fn, body_scope, what, op, cur):
    """Calls fn() which ends in one f0 call under body_scope."""
    s = world.CURRENT_SCHED
    with s.atomic():
      st['pending'] = {'inner': op.get('inner'), 'raises': op.get('raises'),
                       'expect_scope': body_scope}
      st['last_f0'] = None
    raised = None
    try:
      fn()
    except SimFault as e:
      raised = e
    except Exception as e:  # pylint: disable=broad-except
      raised = e
      with s.atomic():
        v('C09.no_fail', [what, type(e).__name__],
          'thread %d %s raised %s: %s' % (st['tid'], what, type(e).__name__,
                                           probes.scrub(str(e))[:300]))
    with s.atomic():
      st['pending'] = None
      if op.get('raises'):
        counters['exc_exit'] += 1
        if raised is None:
          v('C09.call_view', [what, 'fault-swallowed'],
            'thread %d %s: injected probe fault did not propagate' %
            (st['tid'], what))
      expect_call(st, body_scope, what, op)
      check_scope(st, cur, 'after-' + what)

  def run_ops(ops, st, cur):
    s = world.CURRENT_SCHED
    for op in ops:
      kind = op['op']
      if kind == 'obs':
        check_scope(st, cur, 'obs')
      elif kind == 'unset_macro':
        try:
          cmac()
        except Exception:  # pylint: disable=broad-except
          counters['macro_faults'] = counters.get('macro_faults', 0) + 1
        check_scope(st, cur, 'after-failed-macro-evaluation')
      elif kind == 'finalize_fails':
        try:
          gin.finalize()
        except Exception:  # pylint: disable=broad-except
          counters['finalize_faults'] = counters.get('finalize_faults', 0) + 1
        check_scope(st, cur, 'after-rejected-finalize')
      elif kind == 'clear_reparse':
        with s.atomic():
          # Only while this is the only live thread: what a call sees when the
          # configuration is cleared under it by another thread is nobody's
          # promise.
          if sum(1 for o in s.threads if o.state != 'done') != 1:
            continue
          try:
            gin.clear_config(clear_constants=op['constants'])
            gin.parse_config(config_text)
          except Exception as e:  # pylint: disable=broad-except
            v('C09.no_fail', ['clear_config', type(e).__name__],
              'thread %d: clear_config / re-parse raised %r' % (st['tid'], e))
          counters['clears'] = counters.get('clears', 0) + 1
        check_scope(st, cur, 'after-clear_config')
      elif kind == 'call':
        guarded(st, lambda: f0c(), cur, 'call', op, cur)
      elif kind == 'getcfg':
        sc = op['scope'].split('/')
        guarded(st, lambda: gin.get_configurable(op['scope'] + '/f0')(), sc,
                'getcfg', op, cur)
      elif kind == 'ref':
        r = case['refs'][op['i']]
        body_scope = r['scope'].split('/') if r['scope'] else cur
        cons = consumers[op['i']]
        if r['evaluate']:
          guarded(st, lambda: cons(), body_scope, 'ref-eval', op, cur)
        else:
          guarded(st, lambda: cons()['x'](), body_scope, 'ref-callable', op,
                  cur)
      elif kind == 'leak':
        def _gen(val=op['val']):
          with gin.config_scope(val):
            yield
        it = _gen()
        next(it)
        leaked.append(it)       # never finalised: the block stays open
        st['leaked'] = True
        check_scope(st, cur + [op['val']], 'after-leak')
        cur = cur + [op['val']]
      elif kind == 'spawn':
        counters['spawn'] += 1
        body = op['body']

        def child(body=body):
          tid = world.CURRENT_SCHED.thread_state().tid
          cst = {'tid': tid, 'pending': None, 'last_f0': None, 'events': [],
                 'captured': None}
          tls[tid] = cst
          events[tid] = cst['events']
          check_scope(cst, [], 'thread-start')
          run_ops(body, cst, [])
          check_scope(cst, [], 'thread-end')
        s.spawn(child, thread_name='worker' if case.get('same_thread_names')
                else None)
      elif kind == 'block':
        status, new = model_entry(op['entry'], cur, st['captured'])
        with s.atomic():
          obj = _entry_object(op['entry'], st['captured'])
        entered = False
        raised = None
        try:
          if op['entry'].get('prebuilt'):
            with gin.config_scope(['zq']):
              mgr = gin.config_scope(obj)
          else:
            mgr = gin.config_scope(obj)
          with mgr as got_scope:
            entered = True
            if status == 'ok':
              if cur:
                counters['nested'] += 1
              if got_scope != new and not st.get('tainted'):
                v('C09.scope_view', [],
                  'thread %d: config_scope(%r) under %r yielded %r, model '
                  'says %r' % (st['tid'], obj, cur, got_scope, new))
              check_scope(st, new, 'block-enter')
              if op['entry']['kind'] == 'str' and st['captured'] is None:
                st['captured'] = list(got_scope)
              run_ops(op['body'], st, new)
              check_scope(st, new, 'block-end')
              if op['exit'] in ('raise', 'raise_base'):
                raise SimFault('body fault')
              if op['exit'] == 'raise_base':
                raise SimBaseFault('body fault')
        except (SimFault, SimBaseFault) as e:
          raised = e
        except ValueError as e:
          raised = e
        except Exception as e:  # pylint: disable=broad-except
          raised = e
          if status == 'ok':
            v('C09.no_fail', ['block', type(e).__name__],
              'thread %d: config_scope(%r) raised %s: %s' %
              (st['tid'], obj, type(e).__name__, probes.scrub(str(e))[:300]))
        if status == 'invalid':
          counters['invalid_entry'] += 1
          if entered:
            v('C09.invalid_rejected', [op['entry'].get('val', '?')],
              'thread %d: invalid scope %r was entered' % (st['tid'], obj))
          elif raised is None:
            v('C09.invalid_rejected', [op['entry'].get('val', '?')],
              'thread %d: invalid scope %r raised nothing' % (st['tid'], obj))
          # Any exception counts as a rejection: the property fixes no class.
          check_scope(st, cur, 'after-invalid-entry',
                      str(op['entry'].get('val')))
        else:
          if op['exit'] in ('raise', 'raise_base'):
            counters['exc_exit'] += 1
            if not isinstance(raised, SimFault):
              v('C09.restore', ['body-fault-lost'],
                'thread %d: exception raised in the with body did not '
                'propagate (got %r)' % (st['tid'], raised))
          elif raised is not None and not viol:
            v('C09.no_fail', ['block', type(raised).__name__],
              'thread %d: valid config_scope(%r) raised %r' %
              (st['tid'], obj, raised))
          check_scope(st, cur, 'after-block-' + op['exit'])

  s = sched.Sched(random.Random(case['sched']['seed']), policy, replay=replay,
                  length_hint=hint, windows=_windows())

  def make_main(ti, ops):
    def program():
      tid = world.CURRENT_SCHED.thread_state().tid
      st = {'tid': tid, 'pending': None, 'last_f0': None, 'events': [],
            'captured': None}
      tls[tid] = st
      events[tid] = st['events']
      check_scope(st, [], 'thread-start')
      run_ops(ops, st, [])
      if not st.get('leaked'):
        check_scope(st, [], 'thread-end')
    return program

  tname = 'worker' if case.get('same_thread_names') else None
  for ti, th in enumerate(case['threads']):
    s.spawn(make_main(ti, th['ops']), thread_name=tname)
  s.run()
  if s.failure is not None:
    kind = type(s.failure).__name__
    if kind == 'Deadlock':
      v('C09.no_fail', ['deadlock'], str(s.failure))
  for t in s.threads:
    if t.exc is not None and not isinstance(t.exc, SystemExit):
      import traceback
      v('C09.no_fail', ['thread-died', type(t.exc).__name__],
        'thread %d died: %s' % (t.tid, probes.scrub(''.join(
            traceback.format_exception(type(t.exc), t.exc,
                                       t.exc.__traceback__))[-1500:])))
  return {'viol': viol, 'events': events, 'sched': s, 'counters': counters}


def _windows():
  from ginsim.props import c18
  w = c18._windows()  # pylint: disable=protected-access
  return {k: v for k, v in w.items() if k in ('config_scope', 'gin_wrapper')}


def run(case):
  world.reset()
  dry = _execute(case, {'kind': 'seq'}, None, 100)
  hint = dry['sched'].yields
  world.reset()
  sc = case['sched']
  got = _execute(case, sc['policy'], sc.get('replay'), hint)
  s = got['sched']
  viol = list(got['viol'])
  # A violation that also shows under the sequential schedule is reported with
  # its own discriminator so that schedule-dependent ones stay distinguishable.
  seq_sigs = {tuple(x['sig']) for x in dry['viol']}
  for x in dry['viol']:
    if tuple(x['sig']) not in {tuple(y['sig']) for y in viol}:
      viol.append(x)
  lg = probes.Log()
  for tid in sorted(got['events']):
    lg.add('thread', tid, got['events'][tid])
  lg.add('sched', s.record())
  lg.add('viol', sorted(repr(x['sig']) for x in viol))
  c = got['counters']
  nthreads = len(s.threads)
  nontrivial = c['nested'] > 0 and (
      (nthreads > 1 and len(s.switch_log) > 0) or
      (nthreads == 1 and (c['exc_exit'] > 0 or c['invalid_entry'] > 0)))
  return {
      'violations': viol,
      'digest': lg.digest(),
      'key': lg.digest(),
      'nontrivial': nontrivial,
      'steps': s.yields + dry['sched'].yields,
      'inconclusive': isinstance(s.failure, sched.StepCap),
      'ops': {k: v for k, v in c.items() if k in ('obs', 'spawn', 'nested',
                                                  'reentry')},
      'faults': {'preemption': len(s.switch_log),
                 'exception_exit': c['exc_exit'],
                 'invalid_entry': c['invalid_entry'],
                 'macro_evaluation_fails_in_scope': c.get('macro_faults', 0),
                 'finalize_rejected_in_scope': c.get('finalize_faults', 0),
                 'clear_config_in_scope': c.get('clears', 0)},
      'probes': dict({'window.' + k: 0 for k in _windows()},
                     **{'window.' + k: n for k, n in s.window_hits.items()}),
      'sched': {'yields': s.yields, 'switches': len(s.switch_log),
                'digest': s.digest(), 'edges': sorted(s.edges)[:200],
                'policy': {sc['policy']['kind']: 1},
                'threads': nthreads},
      'sched_records': [s.record()],
      'sample_obs': {'events_thread0': [probes.stable(e) for e in
                                        (got['events'].get(0) or [])[:12]],
                     'switches': s.record()['switches'][:10]},
  }


def freeze(case, res):
  import copy
  case = copy.deepcopy(case)
  rec = (res.get('sched_records') or [None])[0]
  if rec:
    case['sched']['replay'] = rec
  return case


def shrinks(case):
  import copy
  # Threads are never removed (switch records name thread ids); their op lists
  # may become empty.
  yield from shrink.tree_shrinks(case, {'ops', 'body', 'inner'},
                                 allow_empty=True)
  rep = case['sched'].get('replay')
  if rep and rep['switches']:
    for cut in shrink.list_cuts(rep['switches']):
      c = copy.deepcopy(case)
      c['sched']['replay']['switches'] = cut
      yield c
    if len(rep['switches']) == 1:
      c = copy.deepcopy(case)
      c['sched']['replay']['switches'] = []
      yield c
  if case.get('body_yields'):
    c = copy.deepcopy(case)
    c['body_yields'] -= 1
    yield c
  for k in sorted(case['bound']):
    c = copy.deepcopy(case)
    del c['bound'][k]
    yield c
