"""C18 - shared records stay consistent under threads; singletons constructed once.

Thread-schedule simulation (DESIGN 3/C18): 2-4 baton-passed real threads call
probe configurables in shared and distinct scopes, read the operative config and
use singletons for the first time, pre-empted at every line inside gin.  Oracles:
no op fails that does not fail sequentially, every read parses and only shows
bindings of the final record, the final operative text equals the sequential
twin's, and each singleton key is constructed at most once per configuration
lifetime with all deliveries identical; clear_config forgets singletons.
"""
import random

from ginsim import probes, sched, shrink, world

ID = 'C18'
LEVEL = 'exploration'
QUICK_RUNS = 4000
THOROUGH_RUNS = 120000
SHRINK_BUDGET = 150
RULE = ('run i draws from Random("<seed>/C18/<i>"): 2-4 probe functions, a '
        'quiescent config (root and scoped bindings, evaluated references, '
        'singleton references), 1-2 phases of 2-4 threads x 1-8 ops '
        '(call/read/use-singleton) and one schedule policy (seq, rand(p), '
        'pct(d), target(k)); pre-emption at every source line inside gin, at '
        'lock operations and inside constructors. A case is non-trivial when at '
        'least one pre-emption happened and >=2 threads touched the same shared '
        'record or singleton key; distinct = distinct (ops, switch list) digest.')
COMPONENTS = {
    'real': ['gin.config (wrapper, operative record, _config_str, singleton, '
             'clear_config)', 'gin.config_parser', 'threading.Thread',
             'threading.local', 'copy.deepcopy', 'pprint'],
    'simulated': ['thread scheduler (baton passing, sys.settrace line events)',
                  'threading.Lock/RLock as seen by gin (cooperative SimLock)'],
    'stub': ['user configurables are generated probes'],
}
ASSUMPTIONS = [
    'pre-emption granularity is one source line inside gin (plus lock ops and '
    'explicit yields in constructors); C-level operations are atomic as under '
    'the GIL',
    'the store is quiescent while threads run (no binds race with calls)',
]

SCOPES = ['', 's1', 's2', 's1/s2']
KEYS = ['k1', 'k2']


# ---------------------------------------------------------------------------
# Generation
# ---------------------------------------------------------------------------

def gen(rng, tier):
  nf = rng.randint(1, 3)
  specs = []
  for i in range(nf):
    params = []
    for j in range(rng.randint(1, 3)):
      params.append({'n': 'p%d' % j, 'k': 'def', 'd': rng.randint(0, 9)})
    specs.append({'name': 'f%d' % i, 'kind': 'fn', 'params': params})
  config = []
  for s in specs:
    for p in s['params']:
      for sc in SCOPES:
        if rng.random() < 0.3:
          key = (sc + '/' if sc else '') + '%s.%s' % (s['name'], p['n'])
          r = rng.random()
          if r < 0.2:
            config.append('%s = @mk()' % key)
          elif r < 0.3:
            config.append('%s = @%s/gin.singleton()' % (key, rng.choice(KEYS)))
          elif r < 0.42:
            # a macro: evaluating it is a configurable call with a record of its
            # own
            config.append('%s = %%MAC%d' % (key, rng.randint(0, 2)))
          else:
            config.append('%s = %d' % (key, rng.randint(10, 99)))
  nuse = rng.randint(1, 3)
  users = []
  for i in range(nuse):
    k = rng.choice(KEYS)
    users.append({'name': 'u%d' % i, 'key': k})
    config.append('u%d.obj = @%s/gin.singleton()' % (i, k))
  for k in KEYS:
    config.append('%s/gin.singleton.constructor = @mk' % k)
  for i in range(3):
    config.append('MAC%d = %d' % (i, 700 + i))
  ctor_yields = rng.randint(0, 3)
  mk_kind = rng.choice(['tok', 'tok', 'empty_list', 'falsy', 'none'])
  # fault injection: the first construction attempt(s) of one singleton raise
  ctor_fault = None
  if rng.random() < 0.3:
    ctor_fault = {'key': rng.choice(KEYS), 'times': rng.choice([1, 1, 2])}
  phases = []
  for _ in range(1 if rng.random() < 0.7 else 2):
    nthreads = rng.randint(2, 4)
    threads = []
    for t in range(nthreads):
      ops = []
      for _ in range(rng.randint(1, 8 if tier == 'thorough' else 6)):
        r = rng.random()
        if r < 0.45:
          s = rng.choice(specs)
          kw = {}
          for p in s['params']:
            if rng.random() < 0.3:
              kw[p['n']] = rng.randint(100, 199)
          ops.append({'op': 'call', 'f': s['name'], 'scope': rng.choice(SCOPES),
                      'kw': kw})
        elif r < 0.65:
          # (both forms of the read)
          ops.append({'op': 'read', 'prov': rng.random() < 0.3})
        else:
          u = rng.choice(users)
          ops.append({'op': 'use', 'u': u['name'],
                      'scope': rng.choice(['', 's1']),
                      # through the reference, or by asking for the singleton
                      # of that key directly
                      'direct': rng.random() < 0.3})
      threads.append({'ops': ops})
    r = rng.random()
    if r < 0.08:
      pol = {'kind': 'seq'}
    elif r < 0.45:
      pol = {'kind': 'rand', 'p': rng.choice([0.02, 0.05, 0.1, 0.3, 0.7])}
    elif r < 0.75:
      pol = {'kind': 'target', 'k': rng.choice([1, 1, 2, 3])}
    else:
      pol = {'kind': 'pct', 'd': rng.choice([1, 2, 3])}
    phases.append({'threads': threads,
                   'sched': {'policy': pol, 'seed': rng.getrandbits(32)},
                   'clear_after': rng.random() < 0.6,
                   'clear_constants': rng.random() < 0.4})
  return {'probes': specs, 'users': users, 'config': config,
          'ctor_yields': ctor_yields, 'mk_kind': mk_kind, 'phases': phases,
          'ctor_fault': ctor_fault,
          'opcodes': tier == 'thorough' and rng.random() < 0.25}


# ---------------------------------------------------------------------------
# Execution
# ---------------------------------------------------------------------------

class _TaggedList(list):
  """An empty (falsy) container that still carries a run-local serial."""

  def __init__(self, serial):
    super().__init__()
    self.serial = serial


class _Falsy:
  """An object whose truth value is False."""

  def __init__(self, serial):
    self.serial = serial

  def __bool__(self):
    return False


class _StubDelegate:

  def configurable_reference(self, name, evaluate):
    return ('ref', name, evaluate)

  def macro(self, name):
    return ('macro', name)


def parse_statements(text):
  """Parses config text with the real parser (statement stream only)."""
  cp = world.gin.config_parser
  out = set()
  for st in cp.ConfigParser(text, _StubDelegate()):
    if isinstance(st, cp.BindingStatement):
      out.add((st.scope, st.selector, st.arg_name, probes.stable(st.value)))
  return out


def _windows():
  import inspect
  cfg = world.config
  out = {}
  for name, fn in (('singleton_value', getattr(cfg, 'singleton_value', None)),
                   ('gin_wrapper', getattr(cfg, '_make_gin_wrapper', None)),
                   ('_config_str', getattr(cfg, '_config_str', None)),
                   ('config_scope', getattr(cfg, 'config_scope', None))):
    if fn is None:
      continue
    try:
      fn = inspect.unwrap(fn)
      lines, first = inspect.getsourcelines(fn)
      out[name] = ('config.py', first, first + len(lines) - 1)
    except (OSError, TypeError):
      pass
  return out


class CtorFault(Exception):
  """Injected: a singleton's constructor fails."""


def _execute(case, mode, length_hints=None):
  """Runs the whole case once in the current world.  mode: 'seq' | 'sched'."""
  gin = world.gin
  log = probes.Log()
  state = {'phase': 0, 'faults_left': 0, 'faults_fired': 0}
  cf = case.get('ctor_fault')

  def hook(name, named, args, kwargs, self_):
    s = world.CURRENT_SCHED
    tid = s.thread_state().tid if s and s.thread_state() else -1
    if name == 'mk':
      if cf and state['faults_left'] > 0 and \
          gin.current_scope_str() == cf['key']:
        state['faults_left'] -= 1
        state['faults_fired'] += 1
        if s is not None:
          s.yield_point('ctor')
        raise CtorFault('injected constructor fault')
      tok = log.tok('mk')
      kind = case.get('mk_kind', 'tok')
      if kind == 'empty_list':
        tok = _TaggedList(tok.serial)
      elif kind == 'falsy':
        tok = _Falsy(tok.serial)
      elif kind == 'none':
        # (a set-up function that returns nothing: the singleton IS None)
        serial_none = tok.serial
        tok = None
      log.add('construct', state['phase'], tid, gin.current_scope_str(),
              tok.serial if tok is not None else serial_none)
      for _ in range(case.get('ctor_yields', 0)):
        if s is not None:
          s.yield_point('ctor')
      return tok
    return dict(named)

  objs = {}
  for spec in case['probes']:
    obj, _ = probes.compile_probe(spec, hook)
    objs[spec['name']] = probes.register_probe(spec, obj)
  mk, _ = probes.compile_probe({'name': 'mk', 'kind': 'fn', 'params': []}, hook)
  objs['mk'] = probes.register_probe({'name': 'mk'}, mk)
  for u in case['users']:
    obj, _ = probes.compile_probe(
        {'name': u['name'], 'kind': 'fn',
         'params': [{'n': 'obj', 'k': 'def', 'd': None}]}, hook)
    objs[u['name']] = probes.register_probe({'name': u['name']}, obj)
  user_key = {u['name']: u['key'] for u in case['users']}

  gin.parse_config('\n'.join(case['config']))

  out = {'phases': [], 'yields': [], 'records': [], 'failure': None,
         'switches': 0, 'edges': set(), 'window_hits': {}, 'digests': []}
  windows = _windows()
  for pi, phase in enumerate(case['phases']):
    state['phase'] = pi
    state['faults_left'] = cf['times'] if cf else 0
    fired_before = state['faults_fired']
    per_thread = []
    reads = []
    deliveries = []   # (key, serial, tid)

    def make_program(ti, ops):
      res = []
      per_thread.append(res)

      def program():
        s = world.CURRENT_SCHED
        for oi, op in enumerate(ops):
          try:
            if op['op'] == 'call':
              with s.atomic():
                scope = op['scope'].split('/') if op['scope'] else []
              with gin.config_scope(scope if scope else None):
                got = objs[op['f']](**op['kw'])
              with s.atomic():
                res.append(('call', oi, probes.stable(
                    {k: (v if not isinstance(v, probes.Tok) else 'TOK')
                     for k, v in got.items()})))
                for v in got.values():
                  if isinstance(v, probes.Tok) and v.label == 'mk' and \
                      getattr(v, 'extra', None):
                    pass
            elif op['op'] == 'read':
              if op.get('prov'):
                text = gin.operative_config_str(show_provenance=True)
              else:
                text = gin.operative_config_str()
              with s.atomic():
                reads.append((ti, oi, text))
                res.append(('read', oi))
            elif op['op'] == 'use':
              scope = [op['scope']] if op['scope'] else None
              if op.get('direct'):
                # the constructor runs under the key's scope here as well
                def _ctor(key=user_key[op['u']]):
                  with gin.config_scope([key]):
                    return objs['mk']()
                got = {'obj': gin.config.singleton_value(user_key[op['u']],
                                                         _ctor)}
              else:
                with gin.config_scope(scope):
                  got = objs[op['u']]()
              with s.atomic():
                tok = got['obj']
                serial = getattr(tok, 'serial', None) or repr(tok)
                deliveries.append((user_key[op['u']], serial, ti))
                res.append(('use', oi, user_key[op['u']]))
          except Exception as e:  # pylint: disable=broad-except
            with s.atomic():
              if isinstance(e, CtorFault):
                # the injected fault reaches exactly the use that ran into it
                res.append(('fault', oi))
              else:
                res.append(('exc', oi, type(e).__name__, str(e)[:300]))
      return program

    sc = phase['sched']
    if mode == 'seq':
      policy, replay = {'kind': 'seq'}, None
    else:
      policy, replay = sc['policy'], sc.get('replay')
    hint = (length_hints or {}).get(pi, 200)
    s = sched.Sched(random.Random(sc['seed']), policy, replay=replay,
                    length_hint=hint, windows=windows,
                    opcode_funcs=(('singleton_value', 'gin_wrapper')
                                  if case.get('opcodes') else ()))
    for ti, th in enumerate(phase['threads']):
      s.spawn(make_program(ti, th['ops']))
    s.run()
    if s.failure is not None:
      out['failure'] = (pi, type(s.failure).__name__, str(s.failure))
    thread_exc = [(t.tid, type(t.exc).__name__, str(t.exc)[:200])
                  for t in s.threads if t.exc is not None]
    final = None
    final_err = None
    try:
      final = gin.operative_config_str()
    except Exception as e:  # pylint: disable=broad-except
      final_err = '%s: %s' % (type(e).__name__, e)
    out['phases'].append({'per_thread': per_thread, 'reads': reads,
                          'deliveries': deliveries, 'final': final,
                          'final_err': final_err, 'thread_exc': thread_exc,
                          'faults_fired': state['faults_fired'] - fired_before})
    out['yields'].append(s.yields)
    out['records'].append(s.record())
    out['switches'] += len(s.switch_log)
    out['edges'] |= s.edges
    out['digests'].append(s.digest())
    for k, v in s.window_hits.items():
      out['window_hits'][k] = out['window_hits'].get(k, 0) + v
    if out['failure'] is not None:
      break
    if phase.get('clear_after'):
      gin.clear_config(clear_constants=bool(phase.get('clear_constants')))
      gin.parse_config('\n'.join(case['config']))
  out['log'] = log
  out['faults_fired'] = state['faults_fired']
  return out


def run(case):
  world.reset()
  seq = _execute(case, 'seq')
  hints = {i: y for i, y in enumerate(seq['yields'])}
  world.reset()
  got = _execute(case, 'sched', hints)
  viol = []

  def v(oracle, disc, msg):
    viol.append({'oracle': oracle, 'sig': [ID, oracle] + list(disc), 'msg': msg})

  inconclusive = False
  if got['failure'] is not None:
    pi, kind, text = got['failure']
    if kind == 'Deadlock':
      v('C18.no_fail', ['deadlock'], 'phase %d deadlocked: %s' % (pi, text))
    else:
      inconclusive = True
  shared = False
  carried = False
  if seq['failure'] is not None:
    inconclusive = True
  for pi, (a, b) in enumerate(zip(seq['phases'], got['phases'])):
    if got['failure'] is not None and pi >= got['failure'][0]:
      break
    # (1) no op fails that does not fail when the threads run one by one.
    for ti, (ra, rb) in enumerate(zip(a['per_thread'], b['per_thread'])):
      ea = {r[1]: r for r in ra if r[0] == 'exc'}
      eb = {r[1]: r for r in rb if r[0] == 'exc'}
      for oi, r in sorted(eb.items()):
        if oi not in ea:
          v('C18.no_fail', [r[2]],
            'phase %d thread %d op %d %r raised %s: %s (not raised when run '
            'sequentially)' % (pi, ti, oi,
                               case['phases'][pi]['threads'][ti]['ops'][oi],
                               r[2], r[3]))
      if ea:
        inconclusive = True
    if b['thread_exc'] and not a['thread_exc']:
      v('C18.no_fail', ['thread-died'], 'phase %d: %r' % (pi, b['thread_exc']))
    # (3) final record equals the sequential result.  An injected constructor
    # fault lands in whichever call happens to construct first, and the failed
    # call leaves a different trace than a completed one: with faults the record
    # is compared with the sequential one only for its form (it parses), not
    # for equality.
    # The record lives on into the next phase unless the configuration is
    # cleared in between, and so does the difference.
    faulted = bool(a.get('faults_fired') or b.get('faults_fired')) or carried
    carried = faulted and not case['phases'][pi].get('clear_after')
    if faulted:
      try:
        if b['final'] is not None:
          parse_statements(b['final'])
      except Exception as e:  # pylint: disable=broad-except
        v('C18.read_parses', ['final', type(e).__name__],
          'phase %d: final operative_config_str() does not parse: %s' % (pi, e))
    elif b['final_err'] and not a['final_err']:
      v('C18.final_equal', ['final-read-raises'],
        'phase %d: final operative_config_str() raised %s' % (pi, b['final_err']))
    elif a['final'] is not None and a['final'] != b['final']:
      v('C18.final_equal', ['text-differs'],
        'phase %d: operative config after all threads finished differs from '
        'the sequential run.\n--- sequential\n%s\n--- interleaved\n%s' %
        (pi, a['final'], b['final']))
    # (2) every read parses and shows only bindings of the final record.
    try:
      final_set = parse_statements(a['final'] or '')
    except Exception:  # pylint: disable=broad-except
      final_set = None
      inconclusive = True
    for ti, oi, text in b['reads']:
      try:
        st = parse_statements(text)
      except Exception as e:  # pylint: disable=broad-except
        v('C18.read_parses', [type(e).__name__],
          'phase %d thread %d op %d: operative_config_str() returned text that '
          'does not parse (%s: %s):\n%s' % (pi, ti, oi, type(e).__name__, e,
                                            text))
        continue
      if final_set is not None and not faulted and not st <= final_set:
        v('C18.read_consistent', ['binding-not-in-final'],
          'phase %d thread %d op %d: read shows %r which the final sequential '
          'record does not contain' % (pi, ti, oi, sorted(st - final_set)[:3]))
    # (4) singletons: at most one construction per key, one object delivered.
    cons = {}
    for ev in got['log'].events:
      if ev[0] == 'construct' and ev[1] == pi and ev[3] in KEYS:
        cons.setdefault(ev[3], []).append(ev[4])
    for key, serials in sorted(cons.items()):
      if len(serials) > 1:
        v('C18.singleton_once', ['constructed-more-than-once'],
          'phase %d: singleton %r constructed %d times (serials %r)' %
          (pi, key, len(serials), serials))
    deliv = {}
    for key, serial, ti in b['deliveries']:
      deliv.setdefault(key, set()).add(serial)
    for key, serials in sorted(deliv.items()):
      if len(serials) > 1:
        v('C18.singleton_same_object', ['different-objects-delivered'],
          'phase %d: singleton %r delivered %d different objects %r' %
          (pi, key, len(serials), sorted(map(str, serials))))
    users_per_key = {}
    for key, serial, ti in b['deliveries']:
      users_per_key.setdefault(key, set()).add(ti)
    if any(len(x) > 1 for x in users_per_key.values()):
      shared = True
    calls = {}
    for ti, th in enumerate(case['phases'][pi]['threads']):
      for op in th['ops']:
        if op['op'] == 'call':
          calls.setdefault((op['f'], op['scope']), set()).add(ti)
    if any(len(x) > 1 for x in calls.values()):
      shared = True
  # (5) clear_config forgets singletons: a later phase constructs anew.
  seen = {}
  for pi, b in enumerate(got['phases']):
    for key, serial, ti in b['deliveries']:
      for pj, other in seen.items():
        if case.get('mk_kind') == 'none':
          continue   # every None is the same object: identity says nothing
        if pj < pi and case['phases'][pj].get('clear_after') and \
            (key, serial) in other:
          v('C18.clear_forgets', ['object-survived-clear'],
            'singleton %r delivered the object of phase %d again in phase %d '
            'although clear_config() ran in between' % (key, pj, pi))
    seen[pi] = {(k, s) for k, s, _ in b['deliveries']}

  lg = probes.Log()
  for pi, b in enumerate(got['phases']):
    lg.add('phase', pi, b['per_thread'], b['final'], sorted(b['deliveries']))
    lg.add('sched', got['records'][pi])
  lg.add('viol', [x['sig'] for x in viol])
  ops = {}
  for ph in case['phases']:
    for th in ph['threads']:
      for op in th['ops']:
        ops[op['op']] = ops.get(op['op'], 0) + 1
  pol = case['phases'][0]['sched']['policy']['kind']
  return {
      'violations': viol,
      'digest': lg.digest(),
      'key': lg.digest(),
      'nontrivial': got['switches'] > 0 and shared,
      'steps': sum(got['yields']) + sum(seq['yields']),
      'inconclusive': inconclusive,
      'ops': ops,
      'faults': {'preemption': got['switches'],
                 'singleton_constructor_raises': got.get('faults_fired', 0)},
      'probes': dict({'window.' + k: 0 for k in _windows()},
                     **{'window.' + k: n for k, n in got['window_hits'].items()}),
      'sched': {'yields': sum(got['yields']), 'switches': got['switches'],
                'digest': ''.join(got['digests']),
                'edges': sorted(got['edges'])[:200],
                'policy': {pol: 1}},
      'sched_records': got['records'],
      'sample_obs': {'final_operative': got['phases'][-1]['final'],
                     'switches': got['records'][0]['switches'][:10]},
  }


def freeze(case, res):
  """Replaces the PRNG-driven schedule by the explicit recorded one."""
  import copy
  case = copy.deepcopy(case)
  for ph, rec in zip(case['phases'], res.get('sched_records') or []):
    ph['sched']['replay'] = rec
  return case


def shrinks(case):
  import copy
  yield from shrink.tree_shrinks(
      case, {'phases', 'ops', 'config', 'probes', 'users'},
      allow_empty=True)
  for pi, ph in enumerate(case['phases']):
    rep = ph['sched'].get('replay')
    if rep and rep['switches']:
      for cut in shrink.list_cuts(rep['switches']):
        c = copy.deepcopy(case)
        c['phases'][pi]['sched']['replay']['switches'] = cut
        yield c
      if len(rep['switches']) == 1:
        c = copy.deepcopy(case)
        c['phases'][pi]['sched']['replay']['switches'] = []
        yield c
    if ph.get('clear_after'):
      c = copy.deepcopy(case)
      c['phases'][pi]['clear_after'] = False
      yield c
  if case.get('ctor_yields'):
    c = copy.deepcopy(case)
    c['ctor_yields'] = case['ctor_yields'] - 1
    yield c
  if case.get('ctor_fault'):
    c = copy.deepcopy(case)
    c['ctor_fault'] = None
    yield c
    if case['ctor_fault']['times'] > 1:
      c = copy.deepcopy(case)
      c['ctor_fault']['times'] = 1
      yield c
