"""C14 - includes act as in-place inclusion; files resolve through ordered locations.

Simulated storage (DESIGN 3/C14): a generated DAG of config files lives in an
in-memory VFS behind gin's reader seam, present in arbitrary subsets of
(search location x reader) cells with differently tagged contents, optionally
also in a real scratch directory (served by the built-in open reader) and in a
real package / plain directory on sys.path (served by the package reader).
Fault enumeration: every include position is made `missing` in turn; open /
existence-check failures at every position; after a failed parse the fault is
healed and the same root parsed again.  The oracle is a small resolution model
plus a twin world that parses the flattened text.
"""
import copy
import os
import shutil
import sys
import tempfile

from ginsim import cfgtext, probes, shrink, vfs, world

ID = 'C14'
LEVEL = 'fault_enumeration'
QUICK_RUNS = 6000
THOROUGH_RUNS = 150000
SHRINK_BUDGET = 200
RULE = ('run i draws from Random("<seed>/C14/<i>") a DAG of 1-6 config files '
        '(conflicting bindings before/after includes, repeated and diamond '
        'includes, imports, relative / absolute / package-relative names), 1-4 '
        'search locations and 1-3 simulated readers in drawn order (+ the real '
        'open reader on a scratch dir and the package reader in a share of '
        'runs), each file present in a drawn subset of (location, reader) cells '
        'with distinct tagged content; then executes the fault-free parse, the '
        'multi-file entry point, and a fault for EVERY include position '
        '(missing, open_raises, exists_raises) followed by heal-and-reparse. '
        'Non-trivial = >=1 include and >=1 name present in >=2 cells or >=1 '
        'fault fired after an applied statement; distinct = digest of (world, '
        'observations).')
COMPONENTS = {
    'real': ['gin.config.parse_config_file / parse_config / '
             'parse_config_files_and_bindings / register_file_reader / '
             'add_config_file_search_path', 'gin.resource_reader (package '
             'reader, with real package and plain directories in a scratch '
             'tree)', 'built-in open / os.path.isfile on a scratch directory '
             '(share of runs)'],
    'simulated': ['file system: in-memory VFS readers with fault plan'],
    'stub': ['probe configurables', 'import targets are virtual modules'],
}
ASSUMPTIONS = ['POSIX path joining', 'single caller thread']


def _val(rng, uid):
  return {'lit': 'v%d' % uid}


def gen(rng, tier):
  nfiles = rng.randint(1, 6 if tier == 'thorough' else 5)
  use_real = rng.random() < 0.25
  use_pkg = rng.random() < 0.25
  nloc = rng.randint(0, 3)
  locations = ['/loc%s' % 'ABC'[i] for i in range(nloc)]
  rng.shuffle(locations)
  if use_real:
    locations.insert(rng.randint(0, len(locations)), '@SCRATCH')
  nreaders = rng.randint(1, 3)
  names = []
  for i in range(nfiles):
    r = rng.random()
    if r < 0.15 and i > 0:
      names.append('/abs/f%d.gin' % i)
    elif r < 0.3 and use_pkg and i > 0:
      names.append('vpk%d/sub/f%d.gin' % (rng.randint(0, 1), i))
    elif r < 0.4 and use_pkg and i > 0:
      names.append('plaind/f%d.gin' % i)
    elif r < 0.55:
      names.append('dir/f%d.gin' % i)
    else:
      names.append('f%d.gin' % i)
  uid = [0]
  files = {}
  for i, name in enumerate(names):
    stmts = []
    for _ in range(rng.randint(1, 4)):
      r = rng.random()
      if r < 0.55 or i == nfiles - 1:
        uid[0] += 1
        stmts.append({'k': 'bind', 'scope': rng.choice(['', '', 's1']),
                      'sel': rng.choice(['f0', 'f1']),
                      'param': rng.choice(['a', 'b']),
                      'val': _val(rng, uid[0])})
      elif r < 0.65:
        form = rng.choice(['import', 'from', 'import_as'])
        stmts.append({'k': 'import', 'form': form,
                      'module': rng.choice(['vsim_mods.alpha', 'vsim_mods.beta']),
                      'alias': 'al' if form == 'import_as' else None})
      else:
        j = rng.randint(i + 1, nfiles - 1)
        stmts.append({'k': 'include', 'file': names[j]})
    files[name] = stmts
  # cells: name -> list of [location index (-1 = ''), reader tag]
  all_locs = [''] + locations
  cells = {}
  for name in names:
    cs = []
    if name.startswith('/'):
      for ri in range(nreaders):
        if rng.random() < 0.6:
          cs.append(['', 'sim%d' % ri])
      if not cs:
        cs.append(['', 'sim%d' % rng.randrange(nreaders)])
    elif name.startswith('vpk'):
      cs.append(['', 'pkg'])
      if rng.random() < 0.4:
        cs.append([rng.choice(all_locs), 'sim%d' % rng.randrange(nreaders)])
    elif name.startswith('plaind'):
      # A plain directory on sys.path is not a package: the model never lets
      # the package reader serve it (the property promises package-relative
      # names only); a simulated reader may.
      cs.append([rng.choice(all_locs), 'sim%d' % rng.randrange(nreaders)])
    else:
      for loc in all_locs:
        readers = ['sim%d' % ri for ri in range(nreaders)]
        if loc == '@SCRATCH':
          readers = ['real'] + readers
        for rd in readers:
          if rng.random() < 0.35:
            cs.append([loc, rd])
      if not cs:
        loc = rng.choice(all_locs)
        cs.append([loc, 'real' if loc == '@SCRATCH' and rng.random() < 0.5
                   else 'sim%d' % rng.randrange(nreaders)])
    cells[name] = cs
  extra = []
  for _ in range(rng.randint(0, 2)):
    uid[0] += 1
    extra.append("%s.%s = 'x%d'" % (rng.choice(['f0', 's1/f1']),
                                    rng.choice(['a', 'b']), uid[0]))
  return {'names': names, 'files': files, 'cells': cells,
          'locations': locations, 'nreaders': nreaders,
          'reader_order': rng.sample(range(nreaders), nreaders),
          'extra_bindings': extra,
          'second_root': rng.random() < 0.3 and nfiles > 1,
          'repeat_root': rng.random() < 0.5,
          'finalize': rng.choice([None, True, False]),
          # skip_unknown in its various forms (no file names anything unknown,
          # so it changes nothing)
          'skip_form': rng.choice([None, None, 'true', 'list', 'tuple', 'set']),
          'unknown_in_extra': rng.random() < 0.2,
          'layout_seed': rng.getrandbits(32),
          'only': None}


# ---------------------------------------------------------------------------
# Model
# ---------------------------------------------------------------------------

def _tag(loc, rd):
  return '%s|%s' % (loc or 'cwd', rd)


def reader_sequence(case):
  """Readers in the order gin consults them."""
  return ['real', 'pkg'] + ['sim%d' % ri for ri in case['reader_order']]


def resolve(case, name, absent=()):
  """Model of the search: returns the winning (loc, reader) cell or None."""
  locs = [''] if os.path.isabs(name) else [''] + case['locations']
  present = [tuple(c) for c in case['cells'].get(name, [])
             if (name, c[0], c[1]) not in absent and (name, '*', '*') not in absent]
  for loc in locs:
    for rd in reader_sequence(case):
      if (loc, rd) in present:
        return loc, rd
  return None


def simulate(case, root, absent=(), poisoned=()):
  """Returns (applied statements with tags, error, tree).

  poisoned: set of (name) whose winning cell raises on open/exists.
  tree = [filename, imports, [subtrees]]"""
  applied = []

  def walk(name):
    cell = resolve(case, name, absent)
    if cell is None:
      return 'missing', name, None
    if name in poisoned:
      return 'poisoned', name, None
    tag = _tag(*cell)
    imports = []
    subs = []
    for s in case['files'][name]:
      if s['k'] == 'include':
        err, who, sub = walk(s['file'])
        if err:
          return err, who, None
        subs.append(sub)
      elif s['k'] == 'import':
        imports.append(s['module'])
        applied.append(s)
      else:
        t = copy.deepcopy(s)
        t['val'] = {'lit': '%s@%s' % (s['val']['lit'], tag)}
        applied.append(t)
    return None, None, [name, imports, subs]

  err, who, tree = walk(root)
  return applied, (err, who) if err else None, tree


def tree_of(result):
  return [result.filename, list(result.imports),
          [tree_of(x) for x in result.includes]]


# ---------------------------------------------------------------------------
# World
# ---------------------------------------------------------------------------

def _content(case, name, loc, rd, rng):
  tag = _tag(loc, rd)
  stmts = []
  for s in case['files'][name]:
    if s['k'] == 'bind':
      t = copy.deepcopy(s)
      t['val'] = {'lit': '%s@%s' % (s['val']['lit'], tag)}
      stmts.append(t)
    else:
      stmts.append(s)
  return cfgtext.file_text(cfgtext.make_file(stmts, rng))


def _setup(case, scratch, faults=None, absent=()):
  import random
  gin = world.gin

  def hook(name, named, args, kwargs, self_):
    return dict(named)
  for name in ('f0', 'f1'):
    obj, _ = probes.compile_probe(
        {'name': name, 'kind': 'fn',
         'params': [{'n': p, 'k': 'def', 'd': 0} for p in 'ab']}, hook)
    probes.register_probe({'name': name}, obj)
  probes.plant_module('vsim_mods.alpha')
  probes.plant_module('vsim_mods.beta')
  rng = random.Random(case['layout_seed'])
  sim_cells = []
  for name in case['names']:
    for loc, rd in case['cells'][name]:
      if (name, loc, rd) in absent or (name, '*', '*') in absent:
        rng.random()
        continue
      text = _content(case, name, loc, rd, rng)
      real_loc = scratch if loc == '@SCRATCH' else loc
      if rd.startswith('sim'):
        sim_cells.append([real_loc, int(rd[3:]), {name: text}])
      elif rd == 'real':
        path = os.path.join(scratch, name)
        os.makedirs(os.path.dirname(path), exist_ok=True)
        with open(path, 'w') as f:
          f.write(text)
      elif rd == 'pkg':
        path = os.path.join(scratch, 'pyroot', name)
        os.makedirs(os.path.dirname(path), exist_ok=True)
        with open(path, 'w') as f:
          f.write(text)
  # package skeleton (vpk0, vpk1 real packages; plaind a plain directory)
  pyroot = os.path.join(scratch, 'pyroot')
  for pk in ('vpk0', 'vpk1'):
    os.makedirs(os.path.join(pyroot, pk, 'sub'), exist_ok=True)
    for d in (os.path.join(pyroot, pk), os.path.join(pyroot, pk, 'sub')):
      init = os.path.join(d, '__init__.py')
      if not os.path.exists(init):
        open(init, 'w').close()
  os.makedirs(os.path.join(pyroot, 'plaind'), exist_ok=True)
  if pyroot not in sys.path:
    sys.path.insert(0, pyroot)
  import importlib
  importlib.invalidate_caches()
  real_faults = {}
  for path, plan in (faults or {}).items():
    real_faults[path.replace('@SCRATCH', scratch)] = plan
  fs = vfs.VFS(sim_cells, nreaders=case['nreaders'], faults=real_faults)
  for ri in case['reader_order']:
    op, ex = fs.readers[ri]
    gin.config.register_file_reader(op, ex)
  for loc in case['locations']:
    gin.add_config_file_search_path(scratch if loc == '@SCRATCH' else loc)
  return fs


def _snapshot():
  cfg = world.config._CONFIG  # pylint: disable=protected-access
  return {k: {p: probes.stable(v) for p, v in sorted(d.items())}
          for k, d in sorted(cfg.items()) if d}


def _twin(case, scratch, applied):
  world.reset()
  _setup(case, scratch)
  world.gin.parse_config(cfgtext.flat_text(applied))
  return _snapshot()


def _include_sites(case):
  """All (file, statement index, included name) in definition order."""
  out = []
  for name in case['names']:
    for si, s in enumerate(case['files'][name]):
      if s['k'] == 'include':
        out.append((name, si, s['file']))
  return out


def run(case):
  scratch = tempfile.mkdtemp(prefix='ginsim_c14_', dir='/dev/shm')
  try:
    return _run(case, scratch)
  finally:
    shutil.rmtree(scratch, ignore_errors=True)
    for m in [m for m in sys.modules if m.split('.')[0] in ('vpk0', 'vpk1',
                                                             'plaind')]:
      del sys.modules[m]


def _clean_scratch(scratch):
  for entry in os.listdir(scratch):
    p = os.path.join(scratch, entry)
    if os.path.isdir(p):
      shutil.rmtree(p, ignore_errors=True)
    else:
      os.unlink(p)


def _run(case, scratch):
  gin = world.gin
  viol = []
  lg = probes.Log()
  fired = {}
  cnt = {'fault_after_effect': 0, 'shadowed_names': 0, 'includes': 0,
         'heal_reparse': 0, 'real_fs_files': 0, 'pkg_files': 0}

  def v(oracle, disc, msg):
    if len(viol) < 30:
      viol.append({'oracle': oracle, 'sig': [ID, oracle] + list(disc),
                   'msg': msg.replace(scratch, '@SCRATCH')})

  root = case['names'][0]
  for name in case['names']:
    if len(case['cells'][name]) > 1:
      cnt['shadowed_names'] += 1
    for loc, rd in case['cells'][name]:
      if rd == 'real':
        cnt['real_fs_files'] += 1
      if rd == 'pkg':
        cnt['pkg_files'] += 1
  cnt['includes'] = len(_include_sites(case))
  prefixes_text = str([''] + [scratch if l == '@SCRATCH' else l
                              for l in case['locations']])

  def scenario(label, absent=(), faults=None, poisoned=(), heal=False):
    """One parse of the root under a fault plan, compared with the model."""
    applied, err, tree = simulate(case, root, absent, poisoned)
    applied2, err2, tree2 = simulate(case, root)
    _clean_scratch(scratch)
    want = _twin(case, scratch, applied)
    want2 = _twin(case, scratch, applied + applied2) if heal else None
    _clean_scratch(scratch)
    world.reset()
    fs = _setup(case, scratch, faults=faults, absent=absent)
    exc = None
    result = None
    try:
      result = gin.parse_config_file(root, **_skip_kwargs(case))
    except Exception as e:  # pylint: disable=broad-except
      exc = e
    got = _snapshot()
    for k, n in fs.fired_counts.items():
      fired[k] = fired.get(k, 0) + n
    if absent:
      fired['missing'] = fired.get('missing', 0) + 1
    lg.add(label, type(exc).__name__ if exc else None, got,
           tree_of(result) if result is not None else None)
    if err is None:
      if exc is not None:
        v('C14.parse_succeeds', [type(exc).__name__],
          '%s: parse raised %s: %s' % (label, type(exc).__name__,
                                       probes.scrub(str(exc))[:400]))
        return
      if got != want:
        v('C14.flattened_equal', [label.split(':')[0]],
          '%s: store differs from the parse of the flattened text (winning '
          'cells per the model: %s).\n got  %r\n want %r' %
          (label, {n: resolve(case, n, absent) for n in case['names']},
           got, want))
      if tree_of(result) != tree:
        v('C14.returned_tree', [],
          '%s: returned include tree %r, model %r' %
          (label, tree_of(result), tree))
    else:
      kind, who = err
      if applied:
        cnt['fault_after_effect'] += 1
      if exc is None:
        v('C14.unreadable_raises', [kind],
          '%s: parse succeeded although %s is %s' % (label, who, kind))
      else:
        if kind == 'missing':
          if type(exc).__name__ not in ('OSError', 'IOError') and \
              not (isinstance(exc, OSError)):
            v('C14.missing_is_ioerror', [type(exc).__name__],
              '%s: unreadable name %s raised %s (%s), expected IOError' %
              (label, who, type(exc).__name__, probes.scrub(str(exc))[:300]))
          else:
            msg = str(exc)
            want_locs = "['']" if os.path.isabs(who) else prefixes_text
            locs = [] if os.path.isabs(who) else [
                scratch if l == '@SCRATCH' else l for l in case['locations']]
            if who not in msg or not all(l in msg for l in locs):
              v('C14.ioerror_text', [],
                '%s: IOError text does not name the file %r and the searched '
                'locations %s:\n%s' % (label, who, want_locs, msg[:400]))
        elif not isinstance(exc, OSError):
          v('C14.storage_error_class', [kind, type(exc).__name__],
            '%s: storage fault on %s surfaced as %s' %
            (label, who, type(exc).__name__))
        if got != want:
          v('C14.prefix_before_unreadable', [kind],
            '%s: after the failed include of %s the store is not exactly what '
            'precedes it.\n got  %r\n want %r' % (label, who, got, want))
      if heal:
        # Heal the fault (restore the file), parse the same root again in the
        # same process: it must now succeed and equal prefix + full text.
        cnt['heal_reparse'] += 1
        fs.faults.clear()
        for name in case['names']:
          for loc, rd in case['cells'][name]:
            if (name, loc, rd) in absent or (name, '*', '*') in absent:
              import random
              text = _content(case, name, loc, rd,
                              random.Random(case['layout_seed'] ^ 5))
              real_loc = scratch if loc == '@SCRATCH' else loc
              if rd.startswith('sim'):
                fs.table.setdefault(int(rd[3:]), {})[
                    os.path.join(real_loc, name)] = text
              else:
                base = scratch if rd == 'real' else os.path.join(scratch,
                                                                 'pyroot')
                path = os.path.join(base, name)
                os.makedirs(os.path.dirname(path), exist_ok=True)
                with open(path, 'w') as f:
                  f.write(text)
        exc2 = None
        try:
          gin.parse_config_file(root)
        except Exception as e:  # pylint: disable=broad-except
          exc2 = e
        got2 = _snapshot()
        lg.add(label + ':healed', type(exc2).__name__ if exc2 else None, got2)
        if err2 is None:
          if exc2 is not None:
            v('C14.reparse_after_heal', [type(exc2).__name__],
              '%s: after restoring %s, parsing the same root again raised %s: '
              '%s' % (label, who, type(exc2).__name__,
                      probes.scrub(str(exc2))[:300]))
          else:
            if got2 != want2:
              v('C14.reparse_after_heal', ['store'],
                '%s: re-parse after healing gives %r, expected %r' %
                (label, got2, want2))

  only = case.get('only')
  plans = [('clean', None)]
  sites = _include_sites(case)
  for name, si, target in sites:
    plans.append(('missing:%s#%d' % (name, si), ('missing', target)))
  for name in case['names']:
    plans.append(('open_raises:%s' % name, ('open_raises', name)))
    plans.append(('exists_raises:%s' % name, ('exists_raises', name)))
  plans.append(('missing:root', ('missing', root)))
  plans.append(('entry', None))
  plans.append(('earlier_copy_appears', None))
  plans.append(('absolute_name_is_not_package_relative', None))
  plans.append(('dynamic_names_do_not_cross_files', None))
  plans.append(('module_is_not_a_package', None))
  for label, plan in plans:
    if only and label != only:
      continue
    if label == 'clean':
      scenario('clean')
    elif label == 'earlier_copy_appears':
      _earlier_copy(case, scratch, v, lg, cnt)
    elif label == 'absolute_name_is_not_package_relative':
      _abs_vs_package(case, scratch, v, lg, cnt)
    elif label == 'dynamic_names_do_not_cross_files':
      _dynamic_foreign_names(case, scratch, v, lg)
    elif label == 'module_is_not_a_package':
      _module_is_not_a_package(case, scratch, v, lg)
    elif label == 'entry':
      _entry(case, scratch, v, lg, cnt)
    elif plan[0] == 'missing':
      scenario(label, absent={(plan[1], '*', '*')}, heal=True)
    else:
      target = plan[1]
      cell = resolve(case, target)
      if cell is None or not cell[1].startswith('sim'):
        continue
      loc = cell[0]
      path = os.path.join(loc, target)
      scenario(label, faults={path: {plan[0]: 'eacces'}}, poisoned={target},
               heal=False)

  lg.add('viol', sorted(repr(x['sig']) for x in viol))
  seen = set()
  uniq = []
  for x in viol:
    t = tuple(x['sig'])
    if t not in seen:
      seen.add(t)
      uniq.append(x)
  return {
      'violations': uniq,
      'digest': lg.digest(), 'key': lg.digest(),
      'nontrivial': cnt['includes'] > 0 and (cnt['shadowed_names'] > 0 or
                                             cnt['fault_after_effect'] > 0),
      'steps': len(lg.events),
      'faults': fired,
      'ops': {'scenarios': len(lg.events) - 1, 'includes': cnt['includes'],
              'heal_reparse': cnt['heal_reparse']},
      'probes': {'real_fs_files': cnt['real_fs_files'],
                 'pkg_reader_files': cnt['pkg_files'],
                 'name_in_several_cells': cnt['shadowed_names'],
                 'fault_after_effect': cnt['fault_after_effect']},
      'sample_obs': {'locations': case['locations'],
                     'readers': reader_sequence(case)},
  }


def _earlier_copy(case, scratch, v, lg, cnt):
  """After a first parse, a copy of some file appears in an EARLIER (location,
  reader) cell; the next parse must resolve to it (the search is done per
  parse, in registration order)."""
  import random
  gin = world.gin
  root = case['names'][0]
  target = None
  for name in case['names']:
    if os.path.isabs(name) or name.startswith(('vpk', 'plaind')):
      continue
    cell = resolve(case, name)
    first = ('', 'sim%d' % case['reader_order'][0])
    if cell is not None and tuple(cell) != first and cell[1] != 'real' and \
        list(first) not in case['cells'][name]:
      target = (name, first)
      break
  if target is None:
    return
  name, first = target
  _clean_scratch(scratch)
  world.reset()
  fs = _setup(case, scratch)
  try:
    gin.parse_config_file(root)
  except Exception:  # pylint: disable=broad-except
    return
  case2 = copy.deepcopy(case)
  case2['cells'][name].append(list(first))
  applied1, err1, _ = simulate(case, root)
  applied2, err2, _ = simulate(case2, root)
  if err1 or err2 or not any(s.get('k') == 'include' and s['file'] == name
                             for st in case['files'].values() for s in st) and \
      name != root:
    return
  text = _content(case2, name, first[0], first[1],
                  random.Random(case['layout_seed'] ^ 9))
  fs.table.setdefault(int(first[1][3:]), {})[os.path.join(first[0], name)] = text
  exc = None
  try:
    gin.parse_config_file(root)
  except Exception as e:  # pylint: disable=broad-except
    exc = e
  got = _snapshot()
  lg.add('earlier_copy_appears', name, type(exc).__name__ if exc else None, got)
  cnt['heal_reparse'] += 1
  want = _twin(case2, scratch, applied1 + applied2)
  if exc is not None:
    v('C14.parse_succeeds', ['second-parse', type(exc).__name__],
      'second parse after a copy of %s appeared in an earlier cell raised %r' %
      (name, exc))
  elif got != want:
    v('C14.search_order_each_parse', [],
      'a copy of %s appeared in the earlier cell %r after the first parse; the '
      'second parse must resolve to it.\n got  %r\n want %r' %
      (name, first, got, want))


def _abs_vs_package(case, scratch, v, lg, cnt):
  """An absolute name bypasses the search locations and is not package-relative:
  if nobody can read it, it is an IOError - even when its directory components
  happen to spell an importable package that holds a file of that name."""
  gin = world.gin
  _clean_scratch(scratch)
  world.reset()
  _setup(case, scratch)
  path = os.path.join(scratch, 'pyroot', 'vpk0', 'sub', 'only_in_package.gin')
  os.makedirs(os.path.dirname(path), exist_ok=True)
  with open(path, 'w') as f:
    f.write("f0.a = 'from-the-package'\n")
  exc = None
  try:
    gin.parse_config("f0.b = 'before'\ninclude '/vpk0/sub/only_in_package.gin'\n")
  except Exception as e:  # pylint: disable=broad-except
    exc = e
  got = _snapshot()
  lg.add('abs_vs_package', type(exc).__name__ if exc else None, got)
  if exc is None:
    v('C14.absolute_bypasses_search', [],
      "include '/vpk0/sub/only_in_package.gin' (no such absolute file) was "
      'served from the package vpk0.sub on the Python path: %r' % got)
  elif not isinstance(exc, OSError):
    v('C14.missing_is_ioerror', ['absolute', type(exc).__name__],
      'unreadable absolute name raised %s' % type(exc).__name__)


def _module_is_not_a_package(case, scratch, v, lg):
  """Package-relative names resolve through PACKAGES on the Python path: a
  plain module (or a built-in one) is no location that could hold a file."""
  gin = world.gin
  _clean_scratch(scratch)
  world.reset()
  _setup(case, scratch)
  pyroot = os.path.join(scratch, 'pyroot')
  with open(os.path.join(pyroot, 'vplainmod.py'), 'w') as f:
    f.write('X = 1\n')
  with open(os.path.join(pyroot, 'next_to_module.gin'), 'w') as f:
    f.write("f0.a = 'next-to-a-module'\n")
  with open(os.path.join(pyroot, 'vpk0', 'inner_mod.py'), 'w') as f:
    f.write('Y = 2\n')
  with open(os.path.join(pyroot, 'vpk0', 'beside_inner.gin'), 'w') as f:
    f.write("f0.a = 'beside-a-submodule'\n")
  import importlib
  importlib.invalidate_caches()
  for name in ('vplainmod/next_to_module.gin', 'vpk0/inner_mod/beside_inner.gin',
               'sys/next_to_module.gin'):
    exc = None
    try:
      gin.parse_config_file(name)
    except Exception as e:  # pylint: disable=broad-except
      exc = e
    got = _snapshot()
    lg.add('module_is_not_a_package', name, type(exc).__name__ if exc else None)
    if exc is None:
      v('C14.missing_is_ioerror', ['module-not-package', name.split('/')[0]],
        '%r names no file (%s is a module, not a package or directory), yet it '
        'was read: %r' % (name, name.rsplit('/', 1)[0], got))
      break
    elif not isinstance(exc, OSError):
      v('C14.missing_is_ioerror', ['module-not-package', type(exc).__name__],
        '%r raised %s' % (name, type(exc).__name__))
      break
  for m in ('vplainmod', 'vpk0.inner_mod'):
    sys.modules.pop(m, None)


def _dynamic_foreign_names(case, scratch, v, lg):
  """Multi-file entry point with dynamic registration: a name that an EARLIER
  file (or an earlier parse) imported is unknown in a later file that does not
  import it - an error, or skipped when skip_unknown asks for that."""
  gin = world.gin
  _clean_scratch(scratch)
  world.reset()
  got = {}

  def dfn(x=0):
    got['x'] = x
    return x
  dfn.__module__ = 'vsim_c14mod'
  probes.plant_module('vsim_c14mod', {'dfn': dfn})
  head = 'from __gin__ import dynamic_registration\n'
  a = os.path.join(scratch, 'dyn_a.gin')
  b = os.path.join(scratch, 'dyn_b.gin')
  with open(a, 'w') as f:
    f.write(head + 'import vsim_c14mod as mod_a\nmod_a.dfn.x = 1\n')
  with open(b, 'w') as f:
    f.write(head + 'mod_a.dfn.x = 2\n')
  attempts = [
      ('second file', lambda: gin.parse_config_files_and_bindings(
          [a, b], [], finalize_config=False)),
      ('extra bindings', lambda: gin.parse_config_files_and_bindings(
          [a], [head.strip(), 'mod_a.dfn.x = 3'], finalize_config=False)),
      ('later parse', lambda: gin.parse_config_file(b)),
  ]
  for what, fn in attempts:
    exc = None
    try:
      fn()
    except Exception as e:  # pylint: disable=broad-except
      exc = e
    try:
      val = gin.get_bindings(dfn).get('x')
    except Exception as e:  # pylint: disable=broad-except
      val = 'EXC %s' % type(e).__name__
    lg.add('dyn_foreign', what, type(exc).__name__ if exc else None, val)
    if exc is None or val != 1:
      v('C14.unknown_is_error', ['dynamic-registration', what],
        'dyn_a.gin imports vsim_c14mod as mod_a; %s uses mod_a without '
        'importing it: %s, mod_a.dfn.x is %r (expected an error and 1)' %
        (what, 'no error' if exc is None else type(exc).__name__, val))
      break
  if True:
    # with skip_unknown the foreign name is skipped, not bound
    try:
      gin.parse_config_files_and_bindings([a, b], [], finalize_config=False,
                                          skip_unknown=True)
      val = gin.get_bindings(dfn).get('x')
      if val != 1:
        v('C14.unknown_is_error', ['dynamic-registration', 'skip_unknown'],
          'with skip_unknown=True the binding of the foreign name mod_a in '
          'dyn_b.gin was applied: mod_a.dfn.x is %r' % (val,))
    except Exception as e:  # pylint: disable=broad-except
      v('C14.entry_point', ['dynamic-registration', type(e).__name__],
        'skip_unknown=True over a foreign dynamic name raised %r' % e)
  sys.modules.pop('vsim_c14mod', None)


def _skip_kwargs(case):
  form = case.get('skip_form')
  names = ['nothing_of_this_name_zz', 'nor.this']
  if form is None:
    return {}
  return {'skip_unknown': {'true': True, 'list': names, 'tuple': tuple(names),
                           'set': set(names)}[form]}


def _entry(case, scratch, v, lg, cnt):
  """The multi-file entry point: files in order, then bindings, then finalize."""
  gin = world.gin
  _clean_scratch(scratch)
  world.reset()
  _setup(case, scratch)
  roots = [case['names'][0]]
  if case.get('second_root'):
    roots.append(case['names'][-1])
    if case.get('repeat_root'):
      roots.append(case['names'][0])   # files are applied in the order GIVEN
  applied = []
  bad = False
  for r in roots:
    a, err, _ = simulate(case, r)
    applied += a
    if err:
      bad = True
  if bad:
    return
  extra = list(case['extra_bindings'])
  if case.get('unknown_in_extra'):
    extra.append('no_such_configurable_zz.p = 1')
  kwargs = {}
  if case['finalize'] is not None:
    kwargs['finalize_config'] = case['finalize']
  if not case.get('unknown_in_extra'):
    kwargs.update(_skip_kwargs(case))
  exc = None
  try:
    gin.parse_config_files_and_bindings(roots, extra, **kwargs)
  except Exception as e:  # pylint: disable=broad-except
    exc = e
  got = _snapshot()
  locked = gin.config_is_locked()
  lg.add('entry', type(exc).__name__ if exc else None, got, locked)
  if case.get('unknown_in_extra'):
    if exc is None:
      v('C14.unknown_is_error', [],
        'parse_config_files_and_bindings accepted a binding for an unknown '
        'configurable without skip_unknown')
    elif locked:
      v('C14.entry_point', ['locked-after-error'],
        'entry point raised but left the configuration locked')
    return
  if exc is not None:
    v('C14.entry_point', [type(exc).__name__],
      'parse_config_files_and_bindings raised %s: %s' %
      (type(exc).__name__, probes.scrub(str(exc))[:300]))
    return
  want_locked = case['finalize'] is not False
  if locked != want_locked:
    v('C14.entry_point', ['finalize'],
      'finalize_config=%r: config_is_locked() is %r' % (case['finalize'],
                                                         locked))
  world.reset()
  _setup(case, scratch)
  gin.parse_config(cfgtext.flat_text(applied) + '\n'.join(extra))
  want = _snapshot()
  if got != want:
    v('C14.entry_point', ['order'],
      'entry point result differs from files-in-order-then-bindings:\n got  %r'
      '\n want %r' % (got, want))


def shrinks(case):
  if not case.get('only'):
    labels = ['clean', 'entry', 'missing:root', 'earlier_copy_appears',
              'absolute_name_is_not_package_relative']
    for name, si, target in _include_sites(case):
      labels.append('missing:%s#%d' % (name, si))
    for name in case['names']:
      labels.append('open_raises:%s' % name)
      labels.append('exists_raises:%s' % name)
    for lab in labels:
      c = copy.deepcopy(case)
      c['only'] = lab
      yield c
    return
  # drop statements (never the ones named by the pinned label)
  for name in case['names']:
    stmts = case['files'][name]
    for si in reversed(range(len(stmts))):
      if len(stmts) <= 1:
        continue
      if case['only'].startswith('missing:%s#' % name):
        continue
      c = copy.deepcopy(case)
      del c['files'][name][si]
      yield c
  # drop cells
  for name in case['names']:
    cs = case['cells'][name]
    for ci in range(len(cs)):
      if len(cs) > 1:
        c = copy.deepcopy(case)
        del c['cells'][name][ci]
        yield c
  for i in range(len(case['locations'])):
    c = copy.deepcopy(case)
    loc = c['locations'].pop(i)
    if all(cc[0] != loc for cs in c['cells'].values() for cc in cs):
      yield c
  if case['extra_bindings']:
    c = copy.deepcopy(case)
    c['extra_bindings'] = []
    yield c
