"""C08 - names resolve by unique dotted suffix, identically through every API.

Part A: insert / pop / copy / clear histories on SelectorMap and its copies
against a naive model (a dict plus string suffix tests); after EVERY operation
every suffix of every name ever used is queried on every live map.
Part B: registration histories at API level; after every registration every
spelling is pushed through bind / query / get_bindings / get_configurable /
references / scoped lookups / finalize hooks and compared with the model's
resolution (DESIGN 3/C08).
"""
import copy

from ginsim import probes, shrink, world

ID = 'C08'
LEVEL = 'exploration'
QUICK_RUNS = 8000
THOROUGH_RUNS = 200000
SHRINK_BUDGET = 250
RULE = ('run i draws from Random("<seed>/C08/<i>") (A) 5-40 SelectorMap '
        'operations (insert / pop / copy / clear on the original and up to 3 '
        'copies) over names with components from {a,b,c} up to 4 long, so that '
        'names are suffixes of other names; (B) 2-6 registrations of probes '
        'whose dotted names share suffixes, interleaved with lookups of every '
        'spelling through 8 API paths, plus pairs of finalize hooks returning '
        'one parameter under two spellings. Non-trivial = (A) a pop or copy '
        'happened while some stored name was a proper suffix of another, or '
        '(B) a spelling changed its resolution after a later registration; '
        'distinct = digest of the event log.')
COMPONENTS = {
    'real': ['gin.selector_map.SelectorMap', 'ParsedBindingKey parse / hash / '
             'equality', '_as_scope_and_selector, get_configurable, '
             'get_bindings, query_parameter, bind_parameter, references, '
             'finalize hook merge'],
    'simulated': ['none (history + rejected lookups; no schedule, no I/O)'],
    'stub': ['probe configurables'],
}
ASSUMPTIONS = ['no thread schedule or I/O is involved; the simulated facet is '
               'the operation history (insert/remove/copy/clear, registration '
               'order)']
COMP = ['a', 'b', 'c']


def _name(rng):
  return '.'.join(rng.choice(COMP) for _ in range(rng.randint(1, 4)))


def gen(rng, tier):
  ops = []
  nmaps = 1
  for _ in range(rng.randint(5, 40 if tier == 'thorough' else 25)):
    r = rng.random()
    m = rng.randrange(nmaps)
    if r < 0.5:
      ops.append({'op': 'insert', 'm': m, 'name': _name(rng)})
    elif r < 0.75:
      ops.append({'op': 'pop', 'm': m, 'pick': rng.random()})
    elif r < 0.9 and nmaps < 4:
      ops.append({'op': 'copy', 'm': m, 'how': rng.choice(['copy', 'copy.copy'])})
      nmaps += 1
    elif r < 0.95:
      ops.append({'op': 'clear', 'm': m})
    elif rng.random() < 0.5:
      ops.append({'op': 'insert', 'm': m, 'name': rng.choice(
          ['', 'a..b', 'a b', '1a', 'a.', '.a', 'a.b\n', 'c\n'])})
    else:
      # a rejected name whose trailing components are fine (and may run along
      # the names that are stored)
      bad = rng.choice(['a b', '1a', '', 'a-b', 'b!'])
      tail = [rng.choice(COMP + ['x']) for _ in range(rng.randint(1, 3))]
      head = [rng.choice(COMP)] if rng.random() < 0.3 else []
      ops.append({'op': 'insert', 'm': m, 'name': '.'.join(head + [bad] + tail)})
  # part B
  pool = ['pa.ma.f', 'pb.ma.f', 'pa.mb.f', 'ma.f', 'f', 'pa.ma.g', 'g',
          'q.r.s.h', 's.h', 'x.pa.ma.f']
  regs = rng.sample(pool, rng.randint(2, 6))
  hooks = rng.random() < 0.5
  # part C: names that come into being through dynamic registration
  dyn = {'pkg': rng.choice(['vq8', 'vq8.sub', 'vq8.sub.deep']),
         'import_as': rng.choice([None, None, 'alias8']),
         'targets': rng.sample(['fn', 'cls', 'meth'], rng.randint(1, 3)),
         'scoped': rng.random() < 0.3}
  # part D: constants are addressed by the same rule
  cpool = ['K', 'm.K', 'p.m.K', 'q.K', 'L', 'p.L', 'x.y.Z']
  consts = [[n, rng.choice(['obj', 'none', 'zero', 'false', 'empty', 'str'])]
            for n in rng.sample(cpool, rng.randint(1, 5))]
  return {'ops': ops, 'regs': regs, 'hooks': hooks,
          'bind_at': rng.randint(0, len(regs) - 1), 'dyn': dyn,
          'consts': consts, 'alias': rng.random() < 0.4,
          # a macro called like a constant's last name component, bound first
          'macro_shadow': rng.random() < 0.4}


# ---------------------------------------------------------------------------
# Model
# ---------------------------------------------------------------------------

def m_matches(stored, partial):
  if partial in stored:
    return [partial]
  return sorted(n for n in stored if n.endswith('.' + partial))


def m_minimal(stored, name):
  parts = name.split('.')
  for i in range(len(parts) - 1, -1, -1):
    s = '.'.join(parts[i:])
    if m_matches(stored, s) == [name]:
      return s
  return name


def suffixes(names):
  out = set()
  for n in names:
    parts = n.split('.')
    for i in range(len(parts)):
      out.add('.'.join(parts[i:]))
  return sorted(out)


# ---------------------------------------------------------------------------
# Part A
# ---------------------------------------------------------------------------

def part_a(case, v, log, stats):
  sm_mod = world.gin.selector_map
  import copy as _copy
  maps = [sm_mod.SelectorMap()]
  models = [{}]
  ever = set()
  serial = [0]
  for op in case['ops']:
    k = op['op']
    m = op['m']
    if m >= len(maps):
      continue
    real, mod = maps[m], models[m]
    nested = any(a != b and a.endswith('.' + b) for a in mod for b in mod)
    if k == 'insert':
      name = op['name']
      valid = bool(name) and not name.endswith('\n') and all(
          p and (p[0].isalpha() or p[0] == '_') and
          p.replace('_', 'a').isalnum() for p in name.split('.'))
      serial[0] += 1
      exc = None
      try:
        real[name] = 'v%d' % serial[0]
      except Exception as e:  # pylint: disable=broad-except
        exc = e
      if valid:
        if exc is not None:
          v('C08.insert', [type(exc).__name__], 'insert %r raised %r' % (name, exc))
        else:
          mod[name] = 'v%d' % serial[0]
          ever.add(name)
      else:
        if exc is None:
          v('C08.insert', ['invalid-accepted'],
            'invalid selector %r was stored' % name)
        elif not isinstance(exc, ValueError):
          v('C08.insert', ['invalid', type(exc).__name__],
            'invalid selector %r raised %s' % (name, type(exc).__name__))
    elif k == 'pop':
      if not mod:
        continue
      names = sorted(mod)
      name = names[int(op['pick'] * len(names)) % len(names)]
      if nested:
        stats['pop_with_nested'] += 1
      try:
        got = real.pop(name)
        want = mod.pop(name)
        if got != want:
          v('C08.pop', ['value'], 'pop(%r) returned %r, model %r' %
            (name, got, want))
      except Exception as e:  # pylint: disable=broad-except
        v('C08.pop', [type(e).__name__], 'pop(%r) raised %r' % (name, e))
        mod.pop(name, None)
    elif k == 'copy':
      if nested:
        stats['copy_with_nested'] += 1
      maps.append(real.copy() if op['how'] == 'copy' else _copy.copy(real))
      models.append(dict(mod))
    elif k == 'clear':
      real.clear()
      mod.clear()
    log.add(k, m, op.get('name'))
    # ---- after every op: every map answers every suffix like its model ----
    # (queries nobody stored, including ones that use the tree's own marker)
    qs = suffixes(ever) + ['zz', 'a.zz', '$', '$.a', 'a.$', '$.' + (
        sorted(ever)[0] if ever else 'b')]
    for mi, (rm, mm) in enumerate(zip(maps, models)):
      what = 'map %d after %s' % (mi, {kk: vv for kk, vv in op.items()
                                       if kk != 'pick'})
      if len(rm) != len(mm) or dict(rm.items()) != mm:
        v('C08.contents', ['copy-shares-state' if mi != m else 'own'],
          '%s: items %r, model %r' % (what, dict(rm.items()), mm))
        continue
      for q in qs:
        want = m_matches(mm, q)
        try:
          got = sorted(rm.matching_selectors(q))
        except Exception as e:  # pylint: disable=broad-except
          got = 'EXC %s' % type(e).__name__
        if got != want:
          v('C08.matching', ['copy-shares-state' if mi != m else 'own'],
            '%s: matching_selectors(%r) is %r, model %r (stored: %r)' %
            (what, q, got, want, sorted(mm)))
          break
        try:
          gm = rm.get_match(q, 'DEFAULT')
          gm_exc = None
        except KeyError as e:
          gm, gm_exc = None, e
        except Exception as e:  # pylint: disable=broad-except
          gm, gm_exc = None, e
        if len(want) > 1:
          if not isinstance(gm_exc, KeyError):
            v('C08.ambiguous_rejected', [],
              '%s: get_match(%r) with matches %r returned %r / raised %r' %
              (what, q, want, gm, gm_exc))
        elif len(want) == 1:
          if gm_exc is not None or gm != mm[want[0]]:
            v('C08.single_match', [],
              '%s: get_match(%r) is %r / %r, model %r' %
              (what, q, gm, gm_exc, mm[want[0]]))
        elif gm_exc is not None or gm != 'DEFAULT':
          v('C08.unknown', [], '%s: get_match(%r) is %r / %r' %
            (what, q, gm, gm_exc))
        if (q in rm) != (q in mm) or rm.get(q, None) != mm.get(q, None):
          v('C08.contents', ['get'], '%s: get/in for %r' % (what, q))
        if sorted(rm.get_all_matches(q)) != sorted(mm[n] for n in want):
          v('C08.matching', ['get_all_matches'],
            '%s: get_all_matches(%r)' % (what, q))
      for name in sorted(mm):
        want = m_minimal(mm, name)
        try:
          got = rm.minimal_selector(name)
        except Exception as e:  # pylint: disable=broad-except
          got = 'EXC %s' % type(e).__name__
        if got != want:
          back = m_matches(mm, got) if isinstance(got, str) else None
          disc = 'not-minimal' if back == [name] else 'does-not-resolve-back'
          v('C08.minimal_selector', [disc],
            '%s: minimal_selector(%r) is %r, the shortest suffix that resolves '
            'back is %r (stored: %r)' % (what, name, got, want, sorted(mm)))
          break


# ---------------------------------------------------------------------------
# Part B
# ---------------------------------------------------------------------------

def part_b(case, v, log, stats):
  gin = world.gin
  world.reset()
  received = {}

  def hook(name, named, args, kwargs, self_):
    received[name] = dict(named)
    return 'ret'
  registered = {}
  originals = {}
  wrappers = {}
  prev_resolution = {}
  uid = [0]
  cobj, _ = probes.compile_probe(
      {'name': 'consumer', 'kind': 'fn',
       'params': [{'n': 'r', 'k': 'def', 'd': None}]}, hook)
  consumer = probes.register_probe({'name': 'consumer', 'module': 'zzz'}, cobj)
  for ri, full in enumerate(case['regs']):
    mod, _, nm = full.rpartition('.')
    pyname = 'fn_%s' % full.replace('.', '_')
    obj, _ = probes.compile_probe(
        {'name': pyname, 'kind': 'fn',
         'params': [{'n': 'x', 'k': 'def', 'd': 'dflt'}]}, hook)
    try:
      wrappers[full] = gin.configurable(nm, module=mod or None)(obj) if mod \
          else gin.configurable(nm, module=None)(obj)
    except Exception as e:  # pylint: disable=broad-except
      v('C08.register', [type(e).__name__], 'register %s raised %r' % (full, e))
      continue
    # without an explicit module gin uses fn.__module__
    real_full = full if mod else 'ginsim_probes.' + nm
    registered[real_full] = pyname
    originals[real_full] = obj
    wrappers[real_full] = wrappers.pop(full)
    log.add('register', real_full)
    stored = sorted(registered)
    if ri == case['bind_at']:
      uid[0] += 1
    # every spelling through every API
    for q in suffixes(stored) + ['nope', 'zz.f']:
      want = m_matches(stored, q)
      if q in prev_resolution and prev_resolution[q] != want:
        stats['resolution_changed'] += 1
      prev_resolution[q] = want
      apis = {}
      uid[0] += 1
      val = 'val%d' % uid[0]

      def attempt(fn):
        try:
          return ('ok', fn())
        except Exception as e:  # pylint: disable=broad-except
          return ('exc', type(e).__name__)
      apis['bind'] = attempt(lambda: gin.bind_parameter(q + '.x', val))
      # (the same value again, through a parse that tolerates UNKNOWN names:
      # an ambiguous name is not unknown)
      apis['parse_skip_unknown'] = attempt(lambda: gin.parse_config(
          '%s.x = %r' % (q, val), skip_unknown=True))
      apis['query'] = attempt(lambda: gin.query_parameter(q + '.x'))
      apis['get_bindings'] = attempt(lambda: gin.get_bindings(q))
      apis['get_configurable'] = attempt(lambda: gin.get_configurable(q))
      apis['scoped_get_configurable'] = attempt(
          lambda: gin.get_configurable('sc/' + q))
      apis['reference'] = attempt(
          lambda: gin.parse_config('consumer.r = @%s' % q))
      apis['tuple_bind'] = attempt(
          lambda: gin.bind_parameter(('sc', q, 'x'), val + 's'))
      if len(want) == 1:
        target = want[0]
        for api, (st, res) in sorted(apis.items()):
          if st != 'ok':
            v('C08.spelling_accepted', [api],
              'after registering %r: %s with spelling %r raised %s, although '
              'it resolves uniquely to %r' % (stored, api, q, res, target))
        if apis['bind'][0] == 'ok':
          # the key is the complete name: visible under every other spelling
          for q2 in suffixes([target]):
            if m_matches(stored, q2) != [target]:
              continue
            try:
              got = gin.query_parameter(q2 + '.x')
            except Exception as e:  # pylint: disable=broad-except
              got = 'EXC %s' % type(e).__name__
            if got != val:
              v('C08.same_key', ['bind-query'],
                'bound %r.x = %r, query under spelling %r gives %r' %
                (q, val, q2, got))
          if apis['get_bindings'][0] == 'ok' and \
              apis['get_bindings'][1].get('x') != apis['query'][1]:
            pass
          gb = attempt(lambda: gin.get_bindings(q))
          if gb[0] == 'ok' and gb[1].get('x') != val:
            v('C08.same_key', ['bind-get_bindings'],
              'bound %r.x = %r, get_bindings(%r) gives %r' % (q, val, q, gb[1]))
          if apis['get_configurable'][0] == 'ok':
            if apis['get_configurable'][1] is not wrappers[target]:
              v('C08.same_key', ['get_configurable'],
                'get_configurable(%r) is not the configurable of %r' %
                (q, target))
            received.clear()
            attempt(lambda: apis['get_configurable'][1]())
            if received.get(registered[target], {}).get('x') != val:
              v('C08.same_key', ['bind-call'],
                'bound %r.x = %r, calling get_configurable(%r)() received %r' %
                (q, val, q, received))
          if apis['scoped_get_configurable'][0] == 'ok' and \
              apis['tuple_bind'][0] == 'ok':
            received.clear()
            attempt(lambda: apis['scoped_get_configurable'][1]())
            if received.get(registered[target], {}).get('x') != val + 's':
              v('C08.same_key', ['scoped-bind-call'],
                "bound ('sc', %r, 'x') = %r, get_configurable('sc/%s')() "
                'received %r' % (q, val + 's', q, received))
          if apis['reference'][0] == 'ok':
            # the reference written with spelling q points at the key that the
            # binding made above lives under
            ref = attempt(lambda: gin.query_parameter('zzz.consumer.r'))
            if ref[0] == 'ok' and hasattr(gin.config, 'validate_reference'):
              chk = attempt(lambda: gin.config.validate_reference(ref[1]))
              if chk[0] != 'ok':
                v('C08.same_key', ['reference-key'],
                  'reference @%s does not address the bindings made for %r '
                  '(validate_reference: %s)' % (q, target, chk[1]))
            received.clear()
            attempt(consumer)
            if received.get('consumer', {}).get('r') is not wrappers[target]:
              v('C08.same_key', ['reference'],
                '@%s delivered %r, not the configurable of %r' %
                (q, received.get('consumer'), target))
      else:
        kind = 'ambiguous' if want else 'unknown'
        for api, (st, res) in sorted(apis.items()):
          if api == 'parse_skip_unknown' and kind == 'unknown':
            continue   # skipped, as asked
          if st == 'ok':
            v('C08.%s_rejected' % kind, [api],
              'after registering %r: %s with %s spelling %r (matches %r) '
              'succeeded: %r' % (stored, api, kind, q, want, res))
      log.add('lookup', q, sorted((a, s) for a, (s, _) in apis.items()))
  # the same callable under a second name: every lookup by NAME addresses the
  # entry stored under that name
  if case.get('alias') and registered:
    first = sorted(registered)[0]
    try:
      alias_conf = gin.external_configurable(originals[first], name='aliasfn',
                                             module='al.m')
      gin.bind_parameter(first + '.x', 'val-of-first')
      gin.bind_parameter('al.m.aliasfn.x', 'val-of-alias')
      for name, want_val, want_conf in (
          (first, 'val-of-first', wrappers[first]),
          ('al.m.aliasfn', 'val-of-alias', alias_conf),
          ('aliasfn', 'val-of-alias', alias_conf)):
        gb = gin.get_bindings(name)
        if gb.get('x') != want_val:
          v('C08.same_key', ['alias', 'get_bindings'],
            '%r and al.m.aliasfn are one callable under two names: '
            'get_bindings(%r) gives %r, bound %r' % (first, name, gb, want_val))
        if gin.query_parameter(name + '.x') != want_val:
          v('C08.same_key', ['alias', 'query'],
            'query_parameter(%r) gives %r' %
            (name + '.x', gin.query_parameter(name + '.x')))
        for sel in (name, 'zq/' + name):
          conf = gin.get_configurable(sel)
          received.clear()
          conf()
          got = received.get(registered[first], {}).get('x')
          if got != want_val:
            v('C08.same_key', ['alias', 'get_configurable'],
              'get_configurable(%r)() received x=%r, the entry of that name is '
              'bound to %r' % (sel, got, want_val))
      log.add('alias', first)
    except Exception as e:  # pylint: disable=broad-except
      v('C08.spelling_accepted', ['alias', type(e).__name__],
        'alias scenario for %r raised %s: %s' %
        (first, type(e).__name__, probes.scrub(str(e))[:300]))
  # finalize hooks: two spellings of one parameter must conflict
  if case['hooks'] and registered:
    stored = sorted(registered)
    target = stored[0]
    sp = [q for q in suffixes([target]) if m_matches(stored, q) == [target]]
    if len(sp) >= 2:
      gin.config.register_finalize_hook(lambda cfg: {sp[0] + '.x': 1})
      gin.config.register_finalize_hook(lambda cfg: {'%s.x' % sp[-1]: 2})
      stats['hook_pairs'] += 1
      try:
        gin.finalize()
        v('C08.hook_conflict', [],
          'two hooks returning %r and %r (one parameter, two spellings) were '
          'not rejected as conflicting' % (sp[0] + '.x', sp[-1] + '.x'))
      except ValueError:
        pass
      except Exception as e:  # pylint: disable=broad-except
        v('C08.hook_conflict', [type(e).__name__], 'finalize raised %r' % e)
      log.add('hooks', sp[0], sp[-1])


# ---------------------------------------------------------------------------
# Part C: configurables that are registered dynamically by a parse
# ---------------------------------------------------------------------------

def part_c(case, v, log, stats):
  gin = world.gin
  world.reset()
  d = case['dyn']
  received = {}

  def dfn(x='dflt'):
    received['fn'] = x
    return x

  class DK(object):

    def __init__(self, x='dflt'):
      received['cls'] = x

    def meth(self, x='dflt'):
      received['meth'] = x
      return x
  mod = probes.plant_module(d['pkg'], {'dfn': dfn, 'DK': DK})
  dfn.__module__ = DK.__module__ = d['pkg']
  DK.__qualname__ = 'DK'
  dfn.__qualname__ = 'dfn'
  DK.meth.__qualname__ = 'DK.meth'
  DK.meth.__module__ = d['pkg']
  handle = d['import_as'] or d['pkg']
  # the module part of the registered name is the import's own spelling: with
  # `import a.b as c` it is a.c
  regmod = d['pkg']
  if d['import_as']:
    regmod = '.'.join(d['pkg'].split('.')[:-1] + [d['import_as']])
  lines = ['from __gin__ import dynamic_registration',
           'import %s%s' % (d['pkg'], ' as alias8' if d['import_as'] else '')]
  sel = {'fn': 'dfn', 'cls': 'DK', 'meth': 'DK.meth'}
  sc = 'sc/' if d['scoped'] else ''
  vals = {}
  for t in d['targets']:
    vals[t] = 'dyn_%s' % t
    lines.append('%s%s.%s.x = %r' % (sc, handle, sel[t], vals[t]))
  try:
    gin.parse_config('\n'.join(lines))
  except Exception as e:  # pylint: disable=broad-except
    v('C08.dyn_parse', [type(e).__name__],
      'parsing %r raised %r' % (lines, e))
    return
  log.add('dyn_parse', lines)
  objs = {'fn': dfn, 'cls': DK, 'meth': DK.meth}
  for t in d['targets']:
    full = '%s.%s' % (regmod, sel[t])
    stats['dyn_targets'] += 1
    # by object
    try:
      with gin.config_scope('sc' if d['scoped'] else None):
        by_obj = gin.get_bindings(objs[t])
    except Exception as e:  # pylint: disable=broad-except
      by_obj = 'EXC %s' % type(e).__name__
    if by_obj != {'x': vals[t]}:
      v('C08.dyn_by_object', [t],
        'get_bindings(<%s object>) gives %r after %r' % (t, by_obj, lines))
    for q in suffixes([full]):
      if t == 'meth' and '.' not in q:
        # gin deliberately refuses a method without its class name
        continue
      results = {}
      try:
        results['query'] = gin.query_parameter('%s%s.x' % (sc, q))
      except Exception as e:  # pylint: disable=broad-except
        results['query'] = 'EXC %s' % type(e).__name__
      try:
        with gin.config_scope('sc' if d['scoped'] else None):
          results['get_bindings'] = gin.get_bindings(q).get('x')
      except Exception as e:  # pylint: disable=broad-except
        results['get_bindings'] = 'EXC %s' % type(e).__name__
      try:
        fn = gin.get_configurable(sc + q)
        received.clear()
        if t == 'meth':
          # the configurable method of the (decorated) class
          results['call'] = 'n/a'
        else:
          fn()
          results['call'] = received.get(t)
      except Exception as e:  # pylint: disable=broad-except
        results['call'] = 'EXC %s' % type(e).__name__
      for api, got in sorted(results.items()):
        if got == 'n/a':
          continue
        if got != vals[t]:
          v('C08.dyn_spelling', [t, api],
            'after %r: %s under spelling %r gives %r, want %r' %
            (lines, api, q, got, vals[t]))
      # a later binding under this spelling lands on the same key
      newval = 'again_%s_%d' % (t, len(q))
      try:
        gin.bind_parameter('%s%s.x' % (sc, q), newval)
        vals[t] = newval
        got = gin.query_parameter('%s%s.x' % (sc, full))
        if got != newval:
          v('C08.dyn_same_key', [t],
            'bound %r.x = %r, query under the complete name gives %r' %
            (q, newval, got))
      except Exception as e:  # pylint: disable=broad-except
        v('C08.dyn_spelling', [t, 'bind'],
          'after %r: bind_parameter under spelling %r raised %r' %
          (lines, q, e))
      log.add('dyn_lookup', t, q, sorted(results.items()))
  # the method really receives the value
  if 'meth' in d['targets']:
    try:
      with gin.config_scope('sc' if d['scoped'] else None):
        dk = gin.get_configurable(regmod + '.DK')
        received.clear()
        inst = dk()
        inst.meth()
      if received.get('meth') != vals['meth']:
        v('C08.dyn_method_call', [],
          'after %r the method received %r, want %r' %
          (lines, received.get('meth'), vals['meth']))
    except Exception as e:  # pylint: disable=broad-except
      v('C08.dyn_method_call', [type(e).__name__],
        'after %r calling the method raised %r' % (lines, e))
  try:
    cs = gin.config_str()
    gin.clear_config()
    gin.parse_config(cs)
    for t in d['targets']:
      got = gin.query_parameter('%s%s.%s.x' % (sc, regmod, sel[t]))
      if got != vals[t]:
        v('C08.dyn_roundtrip', [t], 'config_str round trip gives %r for %s, '
          'want %r\n%s' % (got, t, vals[t], cs))
  except Exception as e:  # pylint: disable=broad-except
    v('C08.dyn_roundtrip', [type(e).__name__],
      'config_str round trip raised %r' % e)


# ---------------------------------------------------------------------------
# Part D: constants
# ---------------------------------------------------------------------------

def part_d(case, v, log, stats):
  gin = world.gin
  world.reset()
  received = {}

  def hook(name, named, args, kwargs, self_):
    received[name] = dict(named)
  cobj, _ = probes.compile_probe(
      {'name': 'cuser', 'kind': 'fn',
       'params': [{'n': 'r', 'k': 'def', 'd': 'dflt'}]}, hook)
  cuser = probes.register_probe({'name': 'cuser', 'module': 'zzz'}, cobj)
  stored = {}
  mk = {'obj': lambda n: probes.Tok(0, 'const:' + n), 'none': lambda n: None,
        'zero': lambda n: 0, 'false': lambda n: False, 'empty': lambda n: (),
        'str': lambda n: 'text:' + n}
  if case.get('macro_shadow'):
    # macros named like the constants' last components exist already: a
    # %name that matches a constant is still that constant
    for short in sorted({n.split('.')[-1] for n, _ in case['consts']}):
      try:
        gin.parse_config('%s = %r' % (short, 'macro-value-of-' + short))
      except Exception as e:  # pylint: disable=broad-except
        v('C08.constant_define', ['macro', type(e).__name__],
          'defining macro %s raised %r' % (short, e))
  for name, kind in case['consts']:
    val = mk[kind](name)
    try:
      gin.constant(name, val)
    except ValueError:
      # gin may refuse a name that abbreviates / is abbreviated by an existing
      # one; the property is silent on that
      log.add('constant_refused', name)
      continue
    except Exception as e:  # pylint: disable=broad-except
      v('C08.constant_define', [type(e).__name__],
        'gin.constant(%r) raised %r' % (name, e))
      continue
    stored[name] = val
    log.add('constant', name, kind)
    for q in suffixes(sorted(stored)) + ['nope.K', 'zz']:
      want = m_matches(stored, q)
      stats['const_lookups'] += 1
      got = {}
      try:
        got['query'] = ('ok', gin.query_parameter(q))
      except Exception as e:  # pylint: disable=broad-except
        got['query'] = ('exc', type(e).__name__)
      try:
        gin.parse_config('zzz.cuser.r = %%%s' % q)
        received.clear()
        cuser()
        got['macro'] = ('ok', received.get('cuser', {}).get('r', 'NOT-CALLED'))
      except Exception as e:  # pylint: disable=broad-except
        got['macro'] = ('exc', type(e).__name__)
      for api, (st, res) in sorted(got.items()):
        if len(want) == 1:
          target = stored[want[0]]
          if st != 'ok' or res is not target and res != target:
            v('C08.constant_spelling', [api],
              'constants %r: %s of %%%s gives %s %r, want the value of %r (%r)'
              % (sorted(stored), api, q, st, res, want[0], target))
          elif st == 'ok' and res is not target and \
              case_kind(case, want[0]) == 'obj':
            v('C08.constant_spelling', [api, 'identity'],
              '%s of %%%s gives an equal but different object' % (api, q))
        elif len(want) > 1:
          if st == 'ok':
            v('C08.ambiguous_rejected', ['constant', api],
              'constants %r: %s of ambiguous %%%s (matches %r) gave %r' %
              (sorted(stored), api, q, want, res))
        elif api == 'query' and st == 'ok':
          v('C08.unknown_rejected', ['constant', api],
            'constants %r: query of unknown %%%s gave %r' %
            (sorted(stored), q, res))
      log.add('const_lookup', q, sorted((a, s) for a, (s, _) in got.items()))


def case_kind(case, name):
  for n, k in case['consts']:
    if n == name:
      return k
  return None


def run(case):
  world.reset()
  log = probes.Log()
  viol = []
  stats = {'pop_with_nested': 0, 'copy_with_nested': 0,
           'resolution_changed': 0, 'hook_pairs': 0, 'dyn_targets': 0, 'const_lookups': 0}

  def v(oracle, disc, msg):
    if len(viol) < 16:
      viol.append({'oracle': oracle, 'sig': [ID, oracle] + list(disc),
                   'msg': msg})
  if not case.get('skip_a'):
    part_a(case, v, log, stats)
  if not case.get('skip_b'):
    part_b(case, v, log, stats)
  if case.get('dyn') and not case.get('skip_c'):
    part_c(case, v, log, stats)
  if case.get('consts') and not case.get('skip_d'):
    part_d(case, v, log, stats)
  seen = set()
  uniq = []
  for x in viol:
    t = tuple(x['sig'])
    if t not in seen:
      seen.add(t)
      uniq.append(x)
  log.add('viol', sorted(repr(x['sig']) for x in uniq))
  return {
      'violations': uniq, 'digest': log.digest(), 'key': log.digest(),
      'nontrivial': (stats['pop_with_nested'] + stats['copy_with_nested'] > 0
                     or stats['resolution_changed'] > 0),
      'steps': len(log.events),
      'ops': {'map_ops': len(case['ops']), 'registrations': len(case['regs'])},
      'faults': {},
      'probes': {'pop_while_name_is_suffix_of_another': stats['pop_with_nested'],
                 'copy_while_nested': stats['copy_with_nested'],
                 'spelling_resolution_changed_by_later_registration':
                     stats['resolution_changed'],
                 'hook_pairs': stats['hook_pairs'],
                 'dynamically_registered_targets': stats['dyn_targets'],
                 'constant_lookups': stats['const_lookups']},
      'sample_obs': [probes.stable(e) for e in log.events[:8]],
  }


def shrinks(case):
  if not case.get('skip_a'):
    c = copy.deepcopy(case)
    c['skip_a'] = True
    yield c
  if not case.get('skip_b'):
    c = copy.deepcopy(case)
    c['skip_b'] = True
    yield c
  if case.get('consts') and not case.get('skip_d'):
    c = copy.deepcopy(case)
    c['skip_d'] = True
    yield c
    if len(case['consts']) > 1:
      for i in range(len(case['consts'])):
        c = copy.deepcopy(case)
        del c['consts'][i]
        yield c
  if case.get('dyn') and not case.get('skip_c'):
    c = copy.deepcopy(case)
    c['skip_c'] = True
    yield c
    if len(case['dyn']['targets']) > 1:
      for t in case['dyn']['targets']:
        c = copy.deepcopy(case)
        c['dyn']['targets'].remove(t)
        yield c
  yield from shrink.tree_shrinks(case, {'ops', 'regs'}, allow_empty=True)
  if case.get('hooks'):
    c = copy.deepcopy(case)
    c['hooks'] = False
    yield c
