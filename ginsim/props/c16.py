"""C16 - a failed parse applies exactly the preceding statements; errors say where.

Crash-point enumeration (DESIGN 3/C16).  For each generated include tree the
flattened unit list U1..Um is known.  For EVERY unit position k and EVERY fault
kind applicable there, unit k is replaced by a faulty one and the tree is parsed
in a reset world (world A); the oracle is the store obtained by applying only
U1..U(k-1) (world B, built incrementally once per tree).  Storage faults
(read errors at every readline index, open failures, bytes lines) are injected
separately under a relaxed oracle (the store of some prefix; never anything
else).  A torn file is just another file, i.e. an input, so it is not injected.
"""
import copy
import re
import tokenize

from ginsim import cfgtext, probes, shrink, vfs, world

ID = 'C16'
LEVEL = 'fault_enumeration'
QUICK_RUNS = 3000
THOROUGH_RUNS = 60000
SHRINK_BUDGET = 200
RULE = ('run i draws from Random("<seed>/C16/<i>") an include tree (1-4 files, '
        'depth <=3, 3-14 statement units: bindings, scoped bindings, macros, '
        'blocks, imports, includes; random layout), an initial store, an '
        'ambient scope and a follow-up text; then enumerates every (unit '
        'position k) x (fault kind applicable at k) of 17 kinds, plus read-error '
        'at every readline index, open failure and bytes-line delivery for '
        'every file. evaluations (in coverage.op_kinds.fault_points) counts executed '
        'fault points. Non-trivial = a fault fired after >=1 applied statement '
        'that changed the store; distinct = digest of (tree, observations).')
COMPONENTS = {
    'real': ['gin.config.parse_config / parse_config_file / bind_parameter',
             'gin.config_parser (tokenize-based)', 'gin.utils location '
             'augmentation', 'config_str(show_provenance=True)'],
    'simulated': ['file system behind register_file_reader (in-memory VFS '
                  'with a fault plan)', 'import targets (virtual modules in '
                  'sys.modules)'],
    'stub': ['probe configurables'],
}
ASSUMPTIONS = ['CPython 3.12 tokenizer', 'single caller thread']

SYNTACTIC = ['bad_value', 'bad_value_name', 'missing_value', 'unbalanced',
             'bad_selector', 'bad_selector_slash', 'bad_include_syntax',
             'bad_import_syntax', 'tok_unterminated_string', 'tok_bad_number',
             'trailing_junk']
SEMANTIC = {'unknown_param': ValueError, 'unknown_configurable': ValueError,
            'unknown_reference': ValueError, 'denylisted': ValueError,
            'bad_include': OSError, 'bad_import': ImportError,
            'unknown_block_target': ValueError}
FAULT_LINES = {
    'bad_value': ['f0.a = 1 +'],
    'bad_value_name': ['f0.a = foo'],
    'missing_value': ['f0.a ='],
    'unbalanced': ['f0.a = [1, 2'],
    'bad_selector': ['f0..a = 1'],
    'bad_selector_slash': ['s1//f0.a = 1'],
    'bad_include_syntax': ['include 3'],
    'bad_import_syntax': ['from vsim_mods import'],
    'tok_unterminated_string': ["'abc"],
    'tok_bad_number': ['0x = 1'],
    'trailing_junk': ['f0.a = 1 2'],
    'unknown_param': ['f0.nope = 1'],
    'unknown_configurable': ['nope.a = 1'],
    'unknown_reference': ['f0.a = @nope()'],
    'denylisted': ['f1.c = 1'],
    'bad_include': ["include '/vfs/missing.gin'"],
    'bad_import': ['import no_such_module_qq'],
    'unknown_block_target': ['nope:', '  a = 1'],
}
# Kinds whose error is raised by the tokenizer while the *previous* statement is
# still being completed (one-token look-ahead; DESIGN 7 #11).
LOOKAHEAD_KINDS = ('tok_unterminated_string', 'tok_bad_number')


def _val(rng, depth=0):
  r = rng.random()
  if r < 0.5 or depth > 1:
    return {'lit': rng.choice([rng.randint(0, 99), 'v%d' % rng.randint(0, 9),
                               1.5, True, None])}
  if r < 0.6:
    return {'ref': [rng.choice(['', 's1']), 'f1', rng.random() < 0.5]}
  if r < 0.7:
    return {'macro': rng.choice(['M0', 'M1'])}
  if r < 0.85:
    return {'list': [_val(rng, depth + 1) for _ in range(rng.randint(0, 3))]}
  if r < 0.93:
    return {'tuple': [_val(rng, depth + 1) for _ in range(rng.randint(1, 2))]}
  return {'dict': [[{'lit': 'k%d' % i}, _val(rng, depth + 1)]
                   for i in range(rng.randint(1, 2))]}


def _stmt(rng, allow_include, names, budget):
  r = rng.random()
  if r < 0.5:
    return {'k': 'bind', 'scope': rng.choice(['', '', 's1', 's1/s2']),
            'sel': rng.choice(['f0', 'f1', 'pk.f0']),
            'param': rng.choice(['a', 'b']), 'val': _val(rng)}
  if r < 0.62:
    return {'k': 'macro', 'name': rng.choice(['M0', 'M1']), 'val': _val(rng, 1)}
  if r < 0.78:
    return {'k': 'block', 'scope': rng.choice(['', 's1']),
            'sel': rng.choice(['f0', 'f1']),
            'members': [[p, _val(rng, 1)] for p in
                        rng.sample(['a', 'b'], rng.randint(1, 2))]}
  if r < 0.86:
    form = rng.choice(['import', 'from', 'import_as', 'from_as'])
    return {'k': 'import', 'form': form,
            'module': rng.choice(['vsim_mods.alpha', 'vsim_mods.beta']),
            'alias': 'al%d' % rng.randint(0, 3) if form.endswith('_as') else None}
  if allow_include and budget[0] > 0:
    budget[0] -= 1
    # (file names may contain characters that are special to str.format)
    name = rng.choice(['/vfs/inc%d.gin', '/vfs/inc%d.gin', '/vfs/sweep_{seed}_%d.gin',
                       '/vfs/run_{}_%d.gin']) % len(names)
    names.append(name)
    return {'k': 'include', 'file': name}
  return {'k': 'bind', 'scope': '', 'sel': 'f0', 'param': 'a', 'val': _val(rng)}


def gen(rng, tier):
  files = {}
  names = ['/vfs/root.gin']
  budget = [rng.randint(0, 3)]
  depth = {'/vfs/root.gin': 0}
  i = 0
  total = 0
  while i < len(names):
    name = names[i]
    n = rng.randint(1, 5 if tier == 'thorough' else 4)
    stmts = []
    for _ in range(n):
      before = len(names)
      s = _stmt(rng, depth[name] < 3 and total < 12, names, budget)
      for new in names[before:]:
        depth[new] = depth[name] + 1
      stmts.append(s)
      total += 1
    files[name] = cfgtext.make_file(stmts, rng)
    i += 1
  initial = []
  for _ in range(rng.randint(0, 3)):
    initial.append({'scope': rng.choice(['', 's1']), 'sel': rng.choice(['f0', 'f1']),
                    'param': rng.choice(['a', 'b']), 'val': rng.randint(500, 599)})
  follow = []
  for _ in range(rng.randint(1, 3)):
    follow.append({'k': 'bind', 'scope': rng.choice(['', 's1']),
                   'sel': rng.choice(['f0', 'f1']),
                   'param': rng.choice(['a', 'b']),
                   'val': {'lit': rng.randint(700, 799)}})
  return {'files': files, 'root': '/vfs/root.gin', 'initial': initial,
          # ('lines' = parse_config with a list of lines, 'extra_bindings' = the
          # bindings argument of parse_config_files_and_bindings)
          'entry': rng.choice(['file', 'file', 'file', 'string', 'string',
                               'lines', 'extra_bindings']),
          'decoy': rng.random() < 0.4,
          'ambient': rng.choice(['', 'amb']), 'followup': follow,
          'final_newline': rng.random() < 0.8,
          'only': None}   # or [unit index, kind] to run a single fault point


# ---------------------------------------------------------------------------
# Units
# ---------------------------------------------------------------------------

def units_of(case):
  """Expands the flattened statements into units.

  Returns a list of dicts {'stmt', 'chain', 'kind': 'stmt'|'header'|'member',
  'j'}; blocks contribute a header unit and one unit per member."""
  out = []
  for s, chain in cfgtext.flatten(case['files'], case['root']):
    if s['k'] == 'block':
      out.append({'stmt': s, 'chain': chain, 'kind': 'header', 'j': None})
      for j in range(len(s['members'])):
        out.append({'stmt': s, 'chain': chain, 'kind': 'member', 'j': j})
    else:
      out.append({'stmt': s, 'chain': chain, 'kind': 'stmt', 'j': None})
  return out


def unit_text(u):
  s = u['stmt']
  if u['kind'] == 'header':
    return ''
  if u['kind'] == 'member':
    p, v = s['members'][u['j']]
    return '%s%s.%s = %s\n' % (s['scope'] + '/' if s['scope'] else '', s['sel'],
                               p, cfgtext.render_value(v))
  if s['k'] == 'include':
    return ''
  return '\n'.join(cfgtext.stmt_lines(s, None)) + '\n'


def kinds_for(u):
  if u['kind'] == 'member':
    return ['member_semantic']
  if u['kind'] == 'header':
    return ['member_syntactic', 'unknown_block_target']
  return SYNTACTIC + [k for k in SEMANTIC if k != 'unknown_block_target']


def faulted_files(case, u, kind):
  """Returns (files with unit u replaced by the fault, expected line in the
  innermost file, innermost file name)."""
  files = copy.deepcopy(case['files'])
  fname, ci = u['chain'][-1]
  f = files[fname]
  base = cfgtext.chunk_line(f, ci)
  s = u['stmt']
  if kind == 'member_semantic' or kind == 'member_syntactic':
    head = (s['scope'] + '/' if s['scope'] else '') + s['sel'] + ':'
    lines = [head]
    j = u['j'] if kind == 'member_semantic' else len(s['members']) // 2
    for i, (p, v) in enumerate(s['members']):
      if i == j:
        lines.append('  nope = 1' if kind == 'member_semantic' else '  %s 1' % p)
      else:
        lines.append('  %s = %s' % (p, cfgtext.render_value(v)))
    line = base + 1 + j
  else:
    lines = list(FAULT_LINES[kind])
    line = base
  f['chunks'][ci] = {'lines': lines, 'stmt': None}
  return files, line, fname


# ---------------------------------------------------------------------------
# Worlds
# ---------------------------------------------------------------------------

def _setup(case, files, fault_plan=None):
  gin = world.gin

  def hook(name, named, args, kwargs, self_):
    return dict(named)
  for name, extra in (('f0', {'module': 'pk'}), ('f1', {'deny': ['c']})):
    obj, _ = probes.compile_probe(
        {'name': name, 'kind': 'fn',
         'params': [{'n': p, 'k': 'def', 'd': 0} for p in 'abc']}, hook)
    probes.register_probe(dict({'name': name}, **extra), obj)
  probes.plant_module('vsim_mods.alpha')
  probes.plant_module('vsim_mods.beta')
  texts = {n: cfgtext.file_text(f, case.get('final_newline', True))
           for n, f in files.items()}
  if case.get('decoy'):
    # a second reader that has a file of every name as well: never consulted,
    # since the first reader finds each file
    decoys = {n: 'f1.b = 424242\n' for n in texts}
    fs = vfs.VFS([['', 0, texts], ['', 1, decoys]], nreaders=2,
                 faults=fault_plan)
  else:
    fs = vfs.VFS([['', 0, texts]], nreaders=1, faults=fault_plan)
  fs.register(gin)
  for b in case['initial']:
    gin.bind_parameter((b['scope'], b['sel'], b['param']), b['val'])
  return fs, texts


def _recorded_imports():
  """The import statements gin has recorded, as {spelling: 1}."""
  recorded = getattr(world.config, '_IMPORTS', None)
  if isinstance(recorded, (set, frozenset, list, tuple)):
    try:
      return {'%s|from=%s|as=%s' % (st.module, bool(st.is_from), st.alias): 1
              for st in recorded}
    except AttributeError:
      pass
  # (the internals look different: go by what config_str() prints)
  try:
    text = world.gin.config_str()
  except Exception as e:  # pylint: disable=broad-except
    return {'config_str raised %s' % type(e).__name__: 1}
  return {l.strip(): 1 for l in text.split('\n')
          if l.startswith(('import ', 'from '))}


def _snapshot():
  cfg = world.config._CONFIG  # pylint: disable=protected-access
  out = {k: {p: probes.stable(v) for p, v in sorted(d.items())}
         for k, d in sorted(cfg.items()) if d}
  # the statements that "have taken effect" include the imports
  imports = _recorded_imports()
  if imports:
    out['__imports__'] = imports
  return out


def _parse(case, fs, texts):
  gin = world.gin
  if case['entry'] == 'string':
    return gin.parse_config(texts[case['root']])
  if case['entry'] == 'lines':
    return gin.parse_config(texts[case['root']].split('\n'))
  if case['entry'] == 'extra_bindings':
    return gin.parse_config_files_and_bindings(
        [], texts[case['root']].split('\n'), finalize_config=False)
  return gin.parse_config_file(case['root'])


_PROV_RE = re.compile(r'^# Set in (.*):(\d+):$')


def _provenance():
  text = world.gin.config_str(show_provenance=True)
  out = {}
  lines = text.split('\n')
  for i, line in enumerate(lines):
    m = _PROV_RE.match(line)
    if m and i + 1 < len(lines):
      key = lines[i + 1].split(' = ')[0].strip()
      out[key] = (m.group(1), int(m.group(2)))
  return out


def _expected_provenance(case, units, k, root_is_string, files):
  """Model: last unit among U1..U(k-1) that set each key, with file and line."""
  exp = {}
  for u in units[:k]:
    s = u['stmt']
    fname, ci = u['chain'][-1]
    f = files[fname]   # the files as parsed (a faulted block is re-rendered)
    base = cfgtext.chunk_line(f, ci)
    if fname == case['root'] and root_is_string:
      shown = 'bindings string'
    else:
      shown = fname
    if u['kind'] == 'stmt' and s['k'] == 'bind':
      full = 'pk.f0' if s['sel'] in ('f0', 'pk.f0') else s['sel']
      key = '%s%s.%s' % (s['scope'] + '/' if s['scope'] else '',
                         full.split('.')[-1], s['param'])
      exp[key] = (shown, base)
    elif u['kind'] == 'stmt' and s['k'] == 'macro':
      exp[s['name']] = (shown, base)
    elif u['kind'] == 'member':
      # Line of member j: header line + 1 + j, plus blank lines in the layout.
      lines = f['chunks'][ci]['lines']
      want = s['members'][u['j']][0]
      ln = None
      for off, text in enumerate(lines[1:], 1):
        if text.strip().startswith(want + ' ='):
          ln = base + off
      key = '%s%s.%s' % (s['scope'] + '/' if s['scope'] else '', s['sel'],
                         want)
      exp[key] = (shown, ln)
  return exp


def run(case):
  gin_mod = None
  viol = []
  lg = probes.Log()
  cnt = {'fault_points': 0, 'after_effect': 0, 'io_points': 0}
  fired = {}

  def v(oracle, disc, msg):
    if len(viol) < 30:
      viol.append({'oracle': oracle, 'sig': [ID, oracle] + list(disc),
                   'msg': msg})

  units = units_of(case)
  root_is_string = case['entry'] != 'file'

  # ---- world B: prefix snapshots, built incrementally -----------------------
  world.reset()
  gin = world.gin
  fs, texts = _setup(case, case['files'])
  prefix = [_snapshot()]
  ok_units = True
  for u in units:
    t = unit_text(u)
    if t:
      try:
        gin.parse_config(t)
      except Exception as e:  # pylint: disable=broad-except
        ok_units = False
        return {'violations': [], 'digest': 'gen-invalid', 'nontrivial': False,
                'inconclusive': True, 'steps': 0,
                'sample_obs': 'generated unit does not parse: %r %r' % (t, e)}
    prefix.append(_snapshot())
  # follow-up bindings alone
  world.reset()
  _setup(dict(case, initial=[]), case['files'])
  gin.parse_config(cfgtext.flat_text(case['followup']))
  follow_only = _snapshot()

  def overlay(base, top=None):
    out = {k: dict(d) for k, d in base.items()}
    for k, d in (follow_only if top is None else top).items():
      out.setdefault(k, {}).update(d)
    return out

  # the whole (fault-free) text alone
  world.reset()
  fs0, texts0 = _setup(dict(case, initial=[]), case['files'])
  _parse(case, fs0, texts0)
  file_only = _snapshot()
  healthy_texts = dict(texts0)

  # ---- the fault-free parse equals the full prefix (sanity of the harness) --
  world.reset()
  fs, texts = _setup(case, case['files'])
  try:
    _parse(case, fs, texts)
    if _snapshot() != prefix[-1]:
      v('C16.harness', ['fault-free-differs'],
        'fault-free parse differs from the unit-by-unit parse:\n%r\n%r' %
        (_snapshot(), prefix[-1]))
  except Exception as e:  # pylint: disable=broad-except
    v('C16.harness', ['fault-free-raises'],
      'fault-free parse raised %s: %s' % (type(e).__name__, e))
  if viol:
    # Not a property violation: the generator or harness is wrong.
    raise RuntimeError('C16 harness self-check failed: %s' % viol[0]['msg'])

  # ---- the grid ---------------------------------------------------------------
  points = []
  for k, u in enumerate(units):
    for kind in kinds_for(u):
      points.append((k, kind))
  if case.get('only'):
    points = [tuple(case['only'])]
  for k, kind in points:
    if k >= len(units):
      continue
    u = units[k]
    if kind not in kinds_for(u):
      continue
    cnt['fault_points'] += 1
    fired[kind] = fired.get(kind, 0) + 1
    files, line, fname = faulted_files(case, u, kind)
    world.reset()
    fs, texts = _setup(case, files)
    depth0 = len(getattr(world.config, '_PARSE_CONTEXTS', []))
    exc = None
    scope_before = None
    try:
      if case['ambient']:
        with gin.config_scope(case['ambient']):
          scope_before = gin.current_scope()
          try:
            _parse(case, fs, texts)
          except Exception as e:  # pylint: disable=broad-except
            exc = e
          scope_after = gin.current_scope()
      else:
        scope_before = gin.current_scope()
        try:
          _parse(case, fs, texts)
        except Exception as e:  # pylint: disable=broad-except
          exc = e
        scope_after = gin.current_scope()
    except Exception as e:  # pylint: disable=broad-except
      exc = e
      scope_after = None
    where = 'unit %d (%s) kind %s in %s line %d' % (k, u['kind'], kind, fname,
                                                    line)
    got = _snapshot()
    want = prefix[k]
    if want != prefix[0]:
      cnt['after_effect'] += 1
    lg.add('point', k, kind, type(exc).__name__ if exc else None, got)
    if exc is None:
      v('C16.fault_raises', [kind], '%s: parse did not fail' % where)
      continue
    lookahead = kind in LOOKAHEAD_KINDS
    if got != want:
      # Classify: is it exactly "one statement too few" (the look-ahead shape)?
      shape = 'other'
      for j in range(len(prefix)):
        if got == prefix[j]:
          shape = ('preceding-statements-lost' if j < k
                   else 'later-statements-applied')
      v('C16.prefix_exact', [kind if lookahead else
                             ('syntactic' if kind in SYNTACTIC or
                              kind == 'member_syntactic' else kind), shape],
        '%s: store after the failed parse differs from the store of exactly '
        'the preceding statements.\n got  %r\n want %r' % (where, got, want))
    if scope_after != scope_before:
      v('C16.state_restored', ['scope'],
        '%s: active scope %r after the failed call, %r before' %
        (where, scope_after, scope_before))
    if gin.config_is_locked():
      v('C16.state_restored', ['locked'], '%s: config locked afterwards' % where)
    if len(getattr(world.config, '_PARSE_CONTEXTS', [])) != depth0:
      v('C16.state_restored', ['parse-context-depth'],
        '%s: parse-context stack depth %d after the failed call, %d before' %
        (where, len(world.config._PARSE_CONTEXTS), depth0))  # pylint: disable=protected-access
    # error class / location
    chain = u['chain']
    if kind in SYNTACTIC or kind == 'member_syntactic':
      if not isinstance(exc, (SyntaxError, tokenize.TokenError)):
        v('C16.error_class', [kind, type(exc).__name__],
          '%s: raised %s (%s), expected a syntax / tokenizer error' %
          (where, type(exc).__name__, probes.scrub(str(exc))[:200]))
      elif isinstance(exc, SyntaxError) and kind not in (
          'unbalanced', 'member_syntactic') and not lookahead:
        if exc.lineno != line:
          v('C16.error_location', [kind, 'lineno'],
            '%s: SyntaxError.lineno is %r' % (where, exc.lineno))
    else:
      cls = SEMANTIC.get(kind, ValueError)
      if not isinstance(exc, cls):
        v('C16.error_class', [kind, type(exc).__name__],
          '%s: raised %s (%s), expected %s' %
          (where, type(exc).__name__, probes.scrub(str(exc))[:200],
           cls.__name__))
      else:
        msg = str(exc)
        for depth, (fn, ci) in enumerate(chain):
          ln = cfgtext.chunk_line(files[fn], ci)
          if depth == len(chain) - 1:
            ln = line
          # Format-agnostic: some line of the message must name this level's
          # file (or 'bindings string') together with the line number; and it
          # must do so exactly once.
          fname = 'bindings string' if (fn == case['root'] and
                                        root_is_string) else fn
          pat = re.compile(r'(?<![\w.])%d(?![\w.])' % ln)
          hits = [l for l in msg.split('\n')
                  if fname in l and pat.search(l.replace(fname, ''))]
          if len(hits) != 1:
            v('C16.error_location', [kind, 'level-%d-of-%d' % (depth, len(chain))],
              '%s: the message names %r line %d in %d lines (expected once per '
              'include level).\n%s' % (where, fname, ln, len(hits),
                                       probes.scrub(msg)[:600]))
            break
    # provenance of what was applied
    try:
      prov = _provenance()
      exp = _expected_provenance(case, units, k, root_is_string, files)
      for key, loc in sorted(exp.items()):
        if loc[1] is not None and prov.get(key) != loc:
          v('C16.provenance', [],
            '%s: config_str(show_provenance=True) attributes %s to %r, the '
            'statement that last set it is at %s:%d' %
            (where, key, prov.get(key), loc[0], loc[1]))
          break
    except Exception as e:  # pylint: disable=broad-except
      v('C16.provenance', ['raises', type(e).__name__],
        '%s: config_str(show_provenance=True) raised %s: %s' %
        (where, type(e).__name__, probes.scrub(str(e))[:300]))
    # later parsing behaves as in a fresh process with the prefix applied
    after = None
    try:
      gin.parse_config(cfgtext.flat_text(case['followup']))
      after = _snapshot()
      if got == want and after != overlay(want):
        v('C16.later_parse', [kind],
          '%s: a follow-up parse gives %r, a fresh process with the prefix '
          'gives %r' % (where, after, overlay(want)))
    except Exception as e:  # pylint: disable=broad-except
      v('C16.later_parse', [kind, type(e).__name__],
        '%s: follow-up parse raised %s: %s' %
        (where, type(e).__name__, probes.scrub(str(e))[:300]))
    # ... including the very call that failed, once the fault is mended: the
    # same entry point on the corrected text goes through and leaves what a
    # fresh process would have after prefix, follow-up and the whole text
    if after is not None and got == want:
      if kind == 'bad_import':
        # the module that could not be imported has become available
        import sys as _sys
        probes.plant_module('no_such_module_qq')
        try:
          gin.parse_config('\n'.join(FAULT_LINES['bad_import']) + '\n')
        except Exception as e:  # pylint: disable=broad-except
          v('C16.later_parse', ['import-now-available', type(e).__name__],
            '%s: the module is importable now, the import statement still '
            'raises %s: %s' % (where, type(e).__name__,
                               probes.scrub(str(e))[:300]))
        finally:
          _sys.modules.pop('no_such_module_qq', None)
        after = _snapshot()
      for ri in fs.table:
        if ri == 0:
          fs.table[ri] = dict(healthy_texts)
      cnt['reparse_after_mend'] = cnt.get('reparse_after_mend', 0) + 1
      try:
        _parse(case, fs, healthy_texts)
        final = _snapshot()
        if final != overlay(after, file_only):
          v('C16.later_parse', ['mended-reparse-differs', kind],
            '%s: parsing the corrected text afterwards gives %r, a fresh '
            'process gives %r' % (where, final, overlay(after, file_only)))
      except Exception as e:  # pylint: disable=broad-except
        v('C16.later_parse', ['mended-reparse-raises', type(e).__name__],
          '%s: parsing the corrected text after the failed call raised %s: %s'
          % (where, type(e).__name__, probes.scrub(str(e))[:300]))

  # ---- the same text parsed into a finalized (locked) configuration: the first
  # statement that binds something is the one that fails, located like any other
  # semantic error, with the statements before it (imports) carried out
  if not case.get('only'):
    k0 = None
    for k, u in enumerate(units):
      s0 = u['stmt']
      if u['kind'] == 'member' or (u['kind'] == 'stmt' and s0 and
                                   s0.get('k') in ('bind', 'macro')):
        k0 = k
        break
    if k0 is not None:
      world.reset()
      fs, texts = _setup(case, case['files'])
      before = _snapshot()
      exc = None
      try:
        gin.finalize()
        _parse(case, fs, texts)
      except Exception as e:  # pylint: disable=broad-except
        exc = e
      cnt['locked_parses'] = cnt.get('locked_parses', 0) + 1
      lg.add('locked', k0, type(exc).__name__ if exc else None)
      u = units[k0]
      if not isinstance(exc, RuntimeError):
        v('C16.error_class', ['locked', type(exc).__name__ if exc else 'none'],
          'parsing into a finalized configuration raised %r, expected '
          'RuntimeError at unit %d' % (exc, k0))
      else:
        def _no_imports(snap):
          return {kk: d for kk, d in snap.items() if kk != '__imports__'}
        if _no_imports(_snapshot()) != _no_imports(before):
          v('C16.prefix_exact', ['locked', 'other'],
            'a parse rejected by the lock changed the store')
        msg = str(exc)
        chain = u['chain']
        for depth, (fn, ci) in enumerate(chain):
          ln = cfgtext.chunk_line(case['files'][fn], ci)
          if depth == len(chain) - 1 and u['kind'] == 'member':
            # header line + the member's offset in the layout (blank lines)
            clines = case['files'][fn]['chunks'][ci]['lines']
            mname = u['stmt']['members'][u['j']][0]
            for off, text in enumerate(clines[1:], 1):
              if text.strip().startswith(mname + ' ='):
                ln = ln + off
                break
          fname = 'bindings string' if (fn == case['root'] and
                                        root_is_string) else fn
          pat = re.compile(r'(?<![\w.])%d(?![\w.])' % ln)
          hits = [l for l in msg.split('\n')
                  if fname in l and pat.search(l.replace(fname, ''))]
          if len(hits) != 1:
            v('C16.error_location', ['locked', 'level-%d-of-%d' %
                                     (depth, len(chain))],
              'parse into a finalized configuration: the message names %r '
              'line %d in %d lines (expected once per include level; the '
              'first binding is unit %d).\n%s' %
              (fname, ln, len(hits), k0, probes.scrub(msg)[:600]))
            break
        if not gin.config_is_locked():
          v('C16.state_restored', ['unlocked-by-failed-parse'],
            'the configuration is no longer locked after the rejected parse')

  # ---- storage faults, relaxed oracle ----------------------------------------
  if not case.get('only') and case['entry'] == 'file':
    for fname in sorted(case['files']):
      text = cfgtext.file_text(case['files'][fname],
                               case.get('final_newline', True))
      nlines = text.count('\n') + 1
      plans = [('read_raises', i) for i in range(min(nlines + 1, 12))]
      plans += [('open_raises', 'eacces'), ('bytes_lines', True)]
      # the read may also be interrupted by something that is not an Exception
      plans += [('read_interrupts', i) for i in range(min(nlines + 1, 5))]
      plans += [('read_enoent', i) for i in range(min(nlines + 1, 4))]
      for fk, arg in plans:
        world.reset()
        fs, texts = _setup(case, case['files'], {fname: {fk: arg}})
        exc = None
        depth_io = len(getattr(world.config, '_PARSE_CONTEXTS', []))
        try:
          _parse(case, fs, texts)
        except Exception as e:  # pylint: disable=broad-except
          exc = e
        except vfs.Interrupt as e:
          exc = e
        cnt['io_points'] += 1
        for kk, n in fs.fired_counts.items():
          fired[kk] = fired.get(kk, 0) + n
        got = _snapshot()
        lg.add('io', fname, fk, arg, type(exc).__name__ if exc else None, got)
        if not fs.fired_counts:
          continue   # the file was not reached / the fault did not fire
        if fk == 'bytes_lines':
          if exc is not None or got != prefix[-1]:
            v('C16.bytes_equal_str', [],
              'reader delivering bytes lines for %s: %r / store differs' %
              (fname, exc))
          continue
        if got not in prefix:
          v('C16.io_prefix', [fk],
            '%s(%r) on %s: resulting store is not the store of any prefix of '
            'the statements: %r' % (fk, arg, fname, got))
        if fk in ('read_raises', 'open_raises'):
          if not isinstance(exc, OSError):
            v('C16.io_error_class', [fk, type(exc).__name__ if exc else 'none'],
              '%s on %s surfaced as %r' % (fk, fname, exc))
        if fk == 'read_enoent' and not isinstance(exc, FileNotFoundError):
          v('C16.io_error_class', [fk, type(exc).__name__ if exc else 'none'],
            '%s on %s surfaced as %r (the reader raised FileNotFoundError)' %
            (fk, fname, exc))
        if fk == 'read_interrupts' and not isinstance(exc, vfs.Interrupt):
          v('C16.io_error_class', [fk, type(exc).__name__ if exc else 'none'],
            '%s on %s surfaced as %r' % (fk, fname, exc))
        if gin.current_scope() != [] or gin.config_is_locked():
          v('C16.state_restored', ['io'], 'scope/lock changed after %s' % fk)
        if len(getattr(world.config, '_PARSE_CONTEXTS', [])) != depth_io:
          v('C16.state_restored', ['io', 'parse-contexts'],
            'parse-context stack depth changed after %s(%r) on %s' %
            (fk, arg, fname))

  lg.add('viol', sorted(repr(x['sig']) for x in viol))
  # one violation per signature
  seen = set()
  uniq = []
  for x in viol:
    t = tuple(x['sig'])
    if t not in seen:
      seen.add(t)
      uniq.append(x)
  return {
      'violations': uniq,
      'digest': lg.digest(),
      'key': lg.digest(),
      'nontrivial': cnt['after_effect'] > 0,
      'steps': cnt['fault_points'] + cnt['io_points'],
      'faults': fired,
      'ops': {'fault_points': cnt['fault_points'], 'io_points': cnt['io_points'],
              'units': len(units), 'files': len(case['files'])},
      'probes': {'fault_after_effect': cnt['after_effect'],
                 'include_depth_ge2': sum(1 for u in units
                                          if len(u['chain']) >= 3)},
      'sample_obs': {'root_text': cfgtext.file_text(case['files'][case['root']]),
                     'units': len(units)},
  }


def shrinks(case):
  units = units_of(case)
  if not case.get('only'):
    # First pin a single fault point.
    for k, u in enumerate(units):
      for kind in kinds_for(u):
        c = copy.deepcopy(case)
        c['only'] = [k, kind]
        yield c
    return
  k, kind = case['only']
  # Drop chunks that are not on the path of the faulted unit.
  for fname in sorted(case['files']):
    chunks = case['files'][fname]['chunks']
    for ci in reversed(range(len(chunks))):
      c = copy.deepcopy(case)
      del c['files'][fname]['chunks'][ci]
      nu = units_of(c)
      # Re-pin the fault on the same statement object if it still exists.
      target = units[k]['stmt'] if k < len(units) else None
      for nk, u in enumerate(nu):
        if u['stmt'] == target and u['kind'] == units[k]['kind'] and \
            u['j'] == units[k]['j']:
          c['only'] = [nk, kind]
          yield c
          break
  for key in ('initial', 'followup'):
    if case[key]:
      c = copy.deepcopy(case)
      c[key] = []
      yield c
  if case['ambient']:
    c = copy.deepcopy(case)
    c['ambient'] = ''
    yield c
