"""C19 - dynamic registration resolves names through the file's own imports.

In-process fake import targets (a generated package tree of ModuleType objects in
sys.modules) and simulated config files (VFS) that enable dynamic registration
and use all four import forms with aliases, include one another with different
imports per file and colliding bound names, and configure functions, classes,
nested classes and methods in every order of first use.  Oracles: the planted
object itself is what gets configured (calls through gin.get_configurable(obj)
receive the bound values), spellings of one object share one key, references
made before a method registration keep working, bad names raise the stated
class and leave the parse-context stack as it was, and config_str() re-parsed in
a reset twin world configures the same objects the same way (DESIGN 3/C19).
"""
import copy
import sys
import types

from ginsim import probes, shrink, vfs, world

ID = 'C19'
LEVEL = 'exploration'
QUICK_RUNS = 12000
THOROUGH_RUNS = 300000
SHRINK_BUDGET = 250
RULE = ('run i draws from Random("<seed>/C19/<i>") 1-3 simulated files (root '
        'including children), each with 1-3 imports of the modules of a '
        'virtual package tree in the four import forms (aliases drawn, bound '
        'names colliding across files), and 2-8 statements configuring '
        'functions, classes, a nested class, a method (before or after its '
        'class is referenced) and reference-holding consumers through the '
        'file\'s own symbols; then 0-2 bad texts (name from another file\'s '
        'imports, missing attribute, reserved gin symbol, late / aliased '
        'enabling statement, unknown __gin__ feature). Non-trivial = >=2 '
        'spellings of one object or a method configured after its class was '
        'referenced; distinct = digest of the event log.')
COMPONENTS = {
    'real': ['ParseContext (process_import, _resolve_selector, _register, '
             're-registration + reference re-initialisation)', '__import__',
             'ImportManager / config_str under dynamic registration',
             'parse_config_file include handling'],
    'simulated': ['import targets: ModuleType tree planted in sys.modules (the '
                  'finder/loader is the stub)', 'file system: VFS'],
    'stub': ['functions / classes of the virtual modules log what they receive'],
}
ASSUMPTIONS = ['module objects are planted, not found by a real finder; '
               '__import__ and attribute resolution are real']

# (a package whose name starts with a capital sorts before `__gin__`)
# ('vq0.sub.modb' is a sibling of 'vq0.sub.mod': one alias for both, in two
# files, names two different modules of one package)
MODULES = ['vq0.sub.mod', 'vq0.other.mod', 'vq1.mod', 'Vq2.mod', 'vq0.sub.modb']
OBJECTS = {
    # `fn0v` is fn0 under an ordinary functools.wraps decorator: another object
    'vq0.sub.mod': ['fn0', 'fn1', 'K0', 'K0.meth', 'K0.Inner', 'K1', 'consume',
                    'fn0v'],
    'vq0.other.mod': ['fn0', 'consume'],
    # `lazyfn` is exported through a module-level __getattr__ (PEP 562);
    # `sfn` and `SK` are registered statically, under other names than their
    # Python names, before any file is parsed
    'vq1.mod': ['fn2', 'K0', 'K0.meth', 'consume', 'lazyfn', 'sfn', 'SK'],
    'Vq2.mod': ['fn0', 'K1', 'consume', 'fn0v'],
    'vq0.sub.modb': ['fn0', 'K1', 'consume'],
}
PARAMS = {'fn0': ['a', 'b'], 'fn1': ['a', 'b'], 'fn2': ['a', 'b'],
          'K0': ['a', 'b'], 'K1': ['a', 'b'], 'K0.meth': ['mp'],
          'K0.Inner': ['x'], 'consume': ['x', 'y'], 'lazyfn': ['a', 'b'],
          'fn0v': ['a', 'b'], 'sfn': ['a', 'b'], 'SK': ['a', 'b']}
STATIC = {'sfn': 'renamed_fn', 'SK': 'RenamedK'}

MOD_SRC = '''
def fn0(a=0, b=0):
  return _hook(__name__, 'fn0', {'a': a, 'b': b})
def fn1(a=0, b=0):
  return _hook(__name__, 'fn1', {'a': a, 'b': b})
def fn2(a=0, b=0):
  return _hook(__name__, 'fn2', {'a': a, 'b': b})
def lazyfn(a=0, b=0):
  return _hook(__name__, 'lazyfn', {'a': a, 'b': b})
def consume(x=None, y=None):
  return _hook(__name__, 'consume', {'x': x, 'y': y})
class K0:
  def __init__(self, a=0, b=0):
    _hook(__name__, 'K0', {'a': a, 'b': b})
  def meth(self, mp=0):
    return _hook(__name__, 'K0.meth', {'mp': mp})
  class Inner:
    def __init__(self, x=0):
      _hook(__name__, 'K0.Inner', {'x': x})
class K1:
  def __init__(self, a=0, b=0):
    _hook(__name__, 'K1', {'a': a, 'b': b})
import functools
def _deco(f):
  @functools.wraps(f)
  def wrapper(a=0, b=0):
    return _hook(__name__, 'fn0v', {'a': a, 'b': b})
  return wrapper
fn0v = _deco(fn0)
def sfn(a=0, b=0):
  return _hook(__name__, 'sfn', {'a': a, 'b': b})
class SK:
  def __init__(self, a=0, b=0):
    _hook(__name__, 'SK', {'a': a, 'b': b})
'''


def spell(imp, path):
  """Selector for object `path` through import statement `imp`."""
  form, module, alias = imp['form'], imp['module'], imp.get('alias')
  if form == 'import':
    return module + '.' + path
  if form in ('import_as', 'from_as'):
    return alias + '.' + path
  return module.split('.')[-1] + '.' + path


def import_line(imp):
  form, module, alias = imp['form'], imp['module'], imp.get('alias')
  head, _, tail = module.rpartition('.')
  if form == 'import':
    return 'import ' + module
  if form == 'import_as':
    return 'import %s as %s' % (module, alias)
  if form == 'from':
    return 'from %s import %s' % (head, tail)
  return 'from %s import %s as %s' % (head, tail, alias)


def bound_name(imp):
  if imp.get('alias'):
    return imp['alias']
  if imp['form'] == 'from':
    return imp['module'].split('.')[-1]
  return imp['module'].split('.')[0]


def gen(rng, tier):
  nfiles = rng.randint(1, 3)
  files = []
  uid = [0]
  for fi in range(nfiles):
    imports = []
    names = set()
    for _ in range(rng.randint(1, 3)):
      form = rng.choice(['import', 'import_as', 'from', 'from_as'])
      module = rng.choice(MODULES)
      alias = rng.choice(['m', 'mod', 'mod2', 'zz']) if form.endswith('_as') \
          else None
      imp = {'form': form, 'module': module, 'alias': alias}
      if bound_name(imp) == 'gin':
        continue
      if bound_name(imp) in names:
        # only plain `import a.b.c` statements may share their bound name (the
        # top-level package), as in Python
        if form != 'import' or any(bound_name(i) == bound_name(imp) and
                                   i['form'] != 'import' for i in imports) or \
            imp in imports:
          continue
      names.add(bound_name(imp))
      imports.append(imp)
    if not imports:
      imports.append({'form': 'import', 'module': MODULES[0], 'alias': None})
    stmts = []
    for _ in range(rng.randint(2, 8 if tier == 'thorough' else 6)):
      imp = rng.choice(imports)
      path = rng.choice(OBJECTS[imp['module']])
      uid[0] += 1
      r = rng.random()
      if path == 'consume' or r < 0.2:
        # a consumer holding a reference to a class / function
        imp2 = rng.choice(imports)
        target = rng.choice([p for p in OBJECTS[imp2['module']]
                             if p in ('K0', 'K1', 'fn0', 'fn1', 'fn2')])
        cimp = rng.choice([i for i in imports])
        stmts.append({'k': 'ref', 'imp': cimp, 'param': rng.choice(['x', 'y']),
                      'timp': imp2, 'target': target,
                      'evaluate': rng.random() < 0.5,
                      # some references carry a scope of their own
                      'rscope': rng.choice(['', '', 'rs', 'rs/deep']),
                      # the same value also names a method of the referenced
                      # class: [@K0(), @K0.meth]
                      'with_meth': target == 'K0' and rng.random() < 0.3})
      else:
        stmts.append({'k': 'bind', 'imp': imp, 'path': path,
                      'param': rng.choice(PARAMS[path]), 'val': uid[0]})
    late = None
    froms = [i for i in imports if i['form'] in ('from', 'from_as', 'import_as')
             and i['module'] in ('vq0.sub.mod', 'vq0.other.mod')]
    if froms and rng.random() < 0.3 and len(stmts) >= 2:
      old_imp = rng.choice(froms)
      other = 'vq0.other.mod' if old_imp['module'] == 'vq0.sub.mod' \
          else 'vq0.sub.mod'
      new_imp = dict(old_imp, module=other)
      if new_imp['form'] == 'from':
        new_imp = {'form': 'from_as', 'module': other,
                   'alias': bound_name(old_imp)}
      at = rng.randint(1, len(stmts) - 1)
      # statements after the re-binding import name objects of the OTHER module;
      # only done when every later use of the name can be switched over
      switch = []
      possible = True
      for st in stmts[at:]:
        for key in ('imp', 'timp'):
          if st.get(key) == old_imp:
            path = st.get('target') if key == 'timp' else (
                'consume' if st['k'] == 'ref' else st.get('path'))
            if path in OBJECTS[other]:
              switch.append((st, key))
            else:
              possible = False
      if possible and switch:
        for st, key in switch:
          st[key] = new_imp
        late = {'imp': new_imp, 'at': at}
    files.append({'name': '/vfs19/f%d.gin' % fi, 'imports': imports,
                  'stmts': stmts, 'late_import': late,
                  'include_at': rng.randint(0, len(stmts)) if fi > 0 else None,
                  'parent': rng.randint(0, fi - 1) if fi > 0 else None})
  bad = []
  for _ in range(rng.randint(0, 2)):
    bad.append(rng.choice(['foreign_symbol', 'missing_attr', 'gin_symbol',
                           'late_enable', 'aliased_enable', 'unknown_feature',
                           'foreign_symbol_includee']))
  return {'files': files, 'bad': bad,
          'static_how': rng.choice(['decorator', 'external']),
          'pre_static': rng.random() < 0.2}


def file_text(f, files):
  lines = ['from __gin__ import dynamic_registration']
  for imp in f['imports']:
    lines.append(import_line(imp))
  children = [c for c in files if c.get('parent') is not None and
              files[c['parent']] is f]
  for si in range(len(f['stmts']) + 1):
    for c in children:
      if c['include_at'] is not None and min(c['include_at'],
                                             len(f['stmts'])) == si:
        lines.append("include '%s'" % c['name'])
    if f.get('late_import') and f['late_import']['at'] == si:
      lines.append(import_line(f['late_import']['imp']))
    if si < len(f['stmts']):
      s = f['stmts'][si]
      if s['k'] == 'bind':
        lines.append('%s.%s = %d' % (spell(s['imp'], s['path']), s['param'],
                                     s['val']))
      else:
        ref_text = '@%s%s%s' % (
            (s['rscope'] + '/') if s.get('rscope') else '',
            spell(s['timp'], s['target']), '()' if s['evaluate'] else '')
        if s.get('with_meth'):
          ref_text = '[%s, @%s]' % (ref_text,
                                    spell(s['timp'], s['target'] + '.meth'))
        lines.append('%s.%s = %s' % (spell(s['imp'], 'consume'), s['param'],
                                     ref_text))
  return '\n'.join(lines) + '\n'


def flatten(files):
  """Statements in application order (children spliced at include_at)."""
  def walk(f):
    children = [c for c in files if c.get('parent') is not None and
                files[c['parent']] is f]
    for si in range(len(f['stmts']) + 1):
      for c in children:
        if min(c['include_at'], len(f['stmts'])) == si:
          yield from walk(c)
      if si < len(f['stmts']):
        yield f['stmts'][si]
  yield from walk(files[0])


def plant(hook):
  mods = {}
  for name in MODULES:
    m = probes.plant_module(name)
    g = {'_hook': hook, '__name__': name}
    exec(compile(MOD_SRC, '<%s>' % name, 'exec'), g)  # pylint: disable=exec-used
    for obj in OBJECTS[name]:
      if '.' not in obj and obj != 'lazyfn':
        setattr(m, obj, g[obj])
      if obj in STATIC:
        setattr(m, '_orig_' + obj, g[obj])
    if 'lazyfn' in OBJECTS[name]:
      def _module_getattr(attr, fn=g['lazyfn'], modname=name):
        if attr == 'lazyfn':
          return fn
        raise AttributeError('module %r has no attribute %r' % (modname, attr))
      m.__getattr__ = _module_getattr
    mods[name] = m
  return mods


def register_static(mods, how):
  """Registers vq1.mod's sfn / SK the static way, under other names."""
  gin = world.gin
  m = mods['vq1.mod']
  for attr, regname in sorted(STATIC.items()):
    orig = m.__dict__['_orig_' + attr]
    if how == 'decorator':
      # as a decorator would: the module attribute is what gin returned
      setattr(m, attr, gin.configurable(regname, module='vq1.mod')(orig))
    else:
      setattr(m, attr, orig)
      gin.external_configurable(orig, name=regname, module='vq1.mod')


def lookup(mods, module, path):
  obj = mods[module]
  for part in path.split('.'):
    obj = getattr(obj, part)
  return obj


def run(case):
  gin = world.gin
  world.reset()
  log = probes.Log()
  viol = []
  received = {}
  stats = {'multi_spelling': 0, 'method_after_class_ref': 0, 'bad_texts': 0,
           'twin_ok': 0, 'collisions': 0}

  def v(oracle, disc, msg):
    if len(viol) < 12:
      viol.append({'oracle': oracle, 'sig': [ID, oracle] + list(disc),
                   'msg': msg})

  received_scope = {}

  def hook(module, path, named):
    received[(module, path)] = dict(named)
    received_scope.setdefault((module, path), []).append(
        gin.current_scope_str())
    return ('result', module, path)

  mods = plant(hook)
  static_how = case.get('static_how', 'decorator')

  def fresh_world():
    world.reset()
    register_static(mods, static_how)
  register_static(mods, static_how)
  files = case['files']
  fs = vfs.VFS([], nreaders=1)
  for f in files:
    fs.table.setdefault(0, {})[f['name']] = file_text(f, files)
  fs.register(gin)

  # ---- model -------------------------------------------------------------------
  expected = {}     # (module, path) -> {param: val}
  refs = {}         # (consumer module, param) -> (module, target, evaluate)
  spellings = {}
  class_ref_seen = set()
  for s in flatten(files):
    if s['k'] == 'bind':
      key = (s['imp']['module'], s['path'])
      expected.setdefault(key, {})[s['param']] = s['val']
      spellings.setdefault(key, set()).add(spell(s['imp'], s['path']))
      if s['path'].endswith('.meth'):
        ck = (s['imp']['module'], s['path'].rsplit('.', 1)[0])
        if ck in class_ref_seen:
          stats['method_after_class_ref'] += 1
      if s['path'] in ('K0', 'K1'):
        class_ref_seen.add(key)
    else:
      ckey = (s['imp']['module'], 'consume')
      refs[(ckey, s['param'])] = (s['timp']['module'], s['target'],
                                  s['evaluate'], s.get('rscope', ''),
                                  bool(s.get('with_meth')))
      spellings.setdefault((s['timp']['module'], s['target']), set()).add(
          spell(s['timp'], s['target']))
      if s['target'] in ('K0', 'K1'):
        class_ref_seen.add((s['timp']['module'], s['target']))
  stats['multi_spelling'] = sum(1 for x in spellings.values() if len(x) > 1)
  bound = [bound_name(i) for f in files for i in f['imports']]
  stats['collisions'] = len(bound) - len(set(bound))

  # gin names a dynamically registered object `<package of the module>.<bound
  # name>.<path>`: with `import a.b as x` that is a.x, not a.b.  Two different
  # modules can therefore end up under one registry name (same alias for two
  # sibling modules, or an alias that reads like a sibling's real name).
  alias_derived = {}
  real_names = set()
  for f in files:
    for imp in f['imports'] + ([f['late_import']['imp']]
                               if f.get('late_import') else []):
      real_names.add(imp['module'])
      if imp.get('alias'):
        derived = '.'.join(imp['module'].split('.')[:-1] + [imp['alias']])
        alias_derived.setdefault(derived, set()).add(imp['module'])
  name_collision = any(len(ms) > 1 for ms in alias_derived.values()) or any(
      d in real_names and ms != {d} for d, ms in alias_derived.items())

  def collision_disc(e):
    if name_collision and isinstance(e, ValueError) and \
        'A different configurable matching' in str(e):
      return ['alias-derived-registry-name-collision']
    return []

  depth0 = len(getattr(world.config, '_PARSE_CONTEXTS', []))
  exc = None
  if case.get('pre_static'):
    # an earlier text without dynamic registration that imports a module of
    # the gin package itself (as `import gin.tf.external_configurables` does)
    probes.plant_module('gin.vq_ext')
    try:
      gin.parse_config('import gin.vq_ext\n')
    except Exception as e:  # pylint: disable=broad-except
      v('C19.parse_succeeds', ['static-sibling', type(e).__name__],
        'parsing "import gin.vq_ext" raised %r' % e)
  try:
    gin.parse_config_file(files[0]['name'])
  except Exception as e:  # pylint: disable=broad-except
    exc = e
  log.add('parse', type(exc).__name__ if exc else None)
  text0 = file_text(files[0], files)
  if exc is not None:
    v('C19.parse_succeeds', [type(exc).__name__] + collision_disc(exc),
      'parsing\n%s\nraised %s: %s' % (
          '\n---\n'.join(file_text(f, files) for f in files),
          type(exc).__name__, probes.scrub(str(exc))[:400]))

  def check_world(label):
    """Every configured object, reached through the planted object itself,
    receives what the model says."""
    for (module, path), params in sorted(expected.items()):
      obj = lookup(mods, module, path)
      received.clear()
      try:
        if path.endswith('.meth'):
          cls = lookup(mods, module, path.rsplit('.', 1)[0])
          inst = gin.get_configurable(cls)()
          received.clear()
          inst.meth()
        else:
          gin.get_configurable(obj)()
      except Exception as e:  # pylint: disable=broad-except
        v('C19.object_configured', [label, type(e).__name__],
          '%s: calling the configurable of %s.%s raised %s: %s\n%s' %
          (label, module, path, type(e).__name__, probes.scrub(str(e))[:300],
           '\n---\n'.join(file_text(f, files) for f in files)))
        continue
      got = received.get((module, path), {})
      bad = {p: (got.get(p), val) for p, val in params.items()
             if got.get(p) != val}
      if bad:
        kind = 'method' if path.endswith('.meth') else (
            'class' if path[0] == 'K' else 'function')
        multi = 'multi-spelling' if len(spellings.get((module, path), ())) > 1 \
            else 'single-spelling'
        v('C19.object_configured', [label, kind, multi],
          '%s: %s.%s (spelled %s) received %r, bound values %r\n%s' %
          (label, module, path, sorted(spellings.get((module, path), ())),
           got, params, '\n---\n'.join(file_text(f, files) for f in files)))
    for (ckey, param), (tm, target, ev, rscope, with_meth) in sorted(
        refs.items()):
      consume = lookup(mods, ckey[0], 'consume')
      received.clear()
      received_scope.clear()
      try:
        gin.get_configurable(consume)()
      except Exception as e:  # pylint: disable=broad-except
        v('C19.reference_works', [label, type(e).__name__],
          '%s: consumer %s raised %s: %s' % (label, ckey[0], type(e).__name__,
                                             probes.scrub(str(e))[:300]))
        continue
      got = received.get(ckey, {}).get(param)
      if with_meth:
        if not (isinstance(got, list) and len(got) == 2 and callable(got[1])):
          v('C19.reference_works', [label, 'class-and-method-in-one-value'],
            '%s: [@%s, @%s.meth] delivered %r' % (label, target, target, got))
          continue
        got = got[0]
      tobj = lookup(mods, tm, target)
      want_params = expected.get((tm, target), {})
      if ev:
        if target.startswith('K'):
          if not isinstance(got, tobj):
            v('C19.reference_works', [label, 'evaluated-class'],
              '%s: @%s() delivered %r, not an instance of the planted class' %
              (label, target, got))
            continue
          inst = got
        else:
          if got != ('result', tm, target):
            v('C19.reference_works', [label, 'evaluated-function'],
              '%s: @%s() delivered %r' % (label, target, got))
          inst = None
      else:
        if not callable(got):
          v('C19.reference_works', [label, 'unevaluated'],
            '%s: @%s delivered %r' % (label, target, got))
          continue
        received.clear()
        received_scope.clear()
        try:
          out = got()
        except Exception as e:  # pylint: disable=broad-except
          v('C19.reference_works', [label, 'unevaluated', type(e).__name__],
            '%s: calling the delivered @%s raised %r' % (label, target, e))
          continue
        inst = out if target.startswith('K') else None
        if target.startswith('K') and not isinstance(out, tobj):
          v('C19.reference_works', [label, 'unevaluated-class'],
            '%s: delivered @%s builds %r' % (label, target, out))
          continue
      # (one consumer call may evaluate several references to the target)
      if rscope not in received_scope.get((tm, target), [rscope]):
        v('C19.reference_works', [label, 'reference-scope'],
          '%s: the reference @%s%s%s ran its target under scope %r\n%s' %
          (label, (rscope + '/') if rscope else '', target,
           '()' if ev else '', received_scope.get((tm, target)),
           '\n---\n'.join(file_text(f, files) for f in files)))
      got_t = received.get((tm, target), {})
      bad = {p: (got_t.get(p), val) for p, val in want_params.items()
             if got_t.get(p) != val}
      if bad:
        v('C19.reference_works', [label, 'target-not-configured'],
          '%s: through the reference, %s.%s received %r, bound %r\n%s' %
          (label, tm, target, got_t, want_params,
           '\n---\n'.join(file_text(f, files) for f in files)))
      # a method configured after the reference was made must be in effect on
      # the instance the reference delivers
      mkey = (tm, target + '.meth')
      if inst is not None and mkey in expected:
        received.clear()
        try:
          inst.meth()
          got_m = received.get(mkey, {})
          if any(got_m.get(p) != val for p, val in expected[mkey].items()):
            v('C19.reference_works', [label, 'method-on-referenced-class'],
              '%s: instance delivered by the reference to %s.%s: meth() '
              'received %r, bound %r\n%s' %
              (label, tm, target, got_m, expected[mkey],
               '\n---\n'.join(file_text(f, files) for f in files)))
        except Exception as e:  # pylint: disable=broad-except
          v('C19.reference_works', [label, 'method', type(e).__name__],
            '%s: meth() on the referenced instance raised %r' % (label, e))

  if exc is None:
    check_world('first-world')
    if len(getattr(world.config, '_PARSE_CONTEXTS', [])) != depth0:
      v('C19.parse_context_depth', ['after-success'], 'stack depth changed')
  # ---- twin: config_str re-parsed in a reset world ------------------------------
  if exc is None and not viol:
    try:
      text = gin.config_str()
    except Exception as e:  # pylint: disable=broad-except
      text = None
      v('C19.config_str', [type(e).__name__],
        'config_str() raised %s: %s' % (type(e).__name__,
                                        probes.scrub(str(e))[:300]))
    if text is not None:
      fresh_world()
      exc2 = None
      try:
        gin.parse_config(text)
      except Exception as e:  # pylint: disable=broad-except
        exc2 = e
      log.add('twin', type(exc2).__name__ if exc2 else None)
      if exc2 is not None:
        v('C19.config_str_reparses',
          [type(exc2).__name__] + collision_disc(exc2),
          'config_str() of the parsed world does not parse in a reset world: '
          '%s: %s\n%s' % (type(exc2).__name__,
                          probes.scrub(str(exc2))[:300], text))
      else:
        before = len(viol)
        check_world('reparsed-config-str')
        if len(viol) == before:
          stats['twin_ok'] += 1
        else:
          viol[-1]['msg'] += '\n--- config_str\n' + text
  # ---- bad texts ----------------------------------------------------------------
  for kind in case['bad']:
    if viol:
      break
    fresh_world()
    fs.register(gin)
    stats['bad_texts'] += 1
    depth0 = len(getattr(world.config, '_PARSE_CONTEXTS', []))
    head = 'from __gin__ import dynamic_registration\n'
    want = None
    if kind == 'foreign_symbol':
      # parent imports `m`; the included child uses it without importing it
      fs.table[0]['/vfs19/bad_child.gin'] = head + 'm.fn0.a = 1\n'
      text = head + 'import vq0.sub.mod as m\ninclude "/vfs19/bad_child.gin"\n'
      want = NameError
    elif kind == 'foreign_symbol_includee':
      # the included child imports `m`; the parent uses it afterwards
      fs.table[0]['/vfs19/good_child.gin'] = head + \
          'import vq0.sub.mod as m\nm.fn0.a = 1\n'
      text = head + 'import vq1.mod as other\n' \
          'include "/vfs19/good_child.gin"\nm.fn0.b = 2\n'
      want = NameError
    elif kind == 'missing_attr':
      text = head + 'import vq0.sub.mod as m\nm.nothing_here.a = 1\n'
      want = AttributeError
    elif kind == 'gin_symbol':
      text = head + 'import vq0.sub.mod as gin\n'
      want = ValueError
    elif kind == 'late_enable':
      text = 'import vq0.sub.mod\nfrom __gin__ import dynamic_registration\n'
      want = SyntaxError
    elif kind == 'aliased_enable':
      text = 'from __gin__ import dynamic_registration as dr\n'
      want = SyntaxError
    else:
      text = 'from __gin__ import no_such_feature\n'
      want = SyntaxError
    exc3 = None
    # (these are errors whatever skip_unknown says: none of them is an unknown
    # configurable or a missing module)
    su = [False, True, ['nothing'], False][(len(kind) + len(files)) % 4]
    if kind in ('foreign_symbol', 'foreign_symbol_includee', 'missing_attr'):
      su = False   # skip_unknown legitimately turns these into skipped names
    try:
      gin.parse_config(text, skip_unknown=su)
    except Exception as e:  # pylint: disable=broad-except
      exc3 = e
    log.add('bad', kind, repr(su), type(exc3).__name__ if exc3 else None)
    if exc3 is None:
      v('C19.bad_name_rejected', [kind] + (['skip_unknown'] if su else []),
        'text\n%s\nparsed without error (skip_unknown=%r)' % (text, su))
    elif not isinstance(exc3, want):
      v('C19.bad_name_error_class', [kind, type(exc3).__name__],
        'text\n%s\nraised %s (%s), expected %s' %
        (text, type(exc3).__name__, probes.scrub(str(exc3))[:200],
         want.__name__))
    if len(getattr(world.config, '_PARSE_CONTEXTS', [])) != depth0:
      v('C19.parse_context_depth', [kind],
        'parse-context stack depth %d after the failed parse, %d before' %
        (len(world.config._PARSE_CONTEXTS), depth0))  # pylint: disable=protected-access
  for name in list(sys.modules):
    if name.split('.')[0] in ('vq0', 'vq1', 'Vq2') or name == 'gin.vq_ext':
      del sys.modules[name]
  seen = set()
  uniq = []
  for x in viol:
    t = tuple(x['sig'])
    if t not in seen:
      seen.add(t)
      uniq.append(x)
  log.add('viol', sorted(repr(x['sig']) for x in uniq))
  log.add('expected', sorted((k, sorted(d.items())) for k, d in expected.items()))
  return {
      'violations': uniq, 'digest': log.digest(), 'key': log.digest(),
      'nontrivial': stats['multi_spelling'] > 0 or
                    stats['method_after_class_ref'] > 0,
      'steps': len(log.events) + sum(len(f['stmts']) for f in files),
      'ops': {'files': len(files),
              'statements': sum(len(f['stmts']) for f in files)},
      'faults': {'bad_text': stats['bad_texts']},
      'probes': {'objects_with_several_spellings': stats['multi_spelling'],
                 'method_configured_after_class_referenced':
                     stats['method_after_class_ref'],
                 'colliding_bound_names_across_files': stats['collisions'],
                 'config_str_twin_ok': stats['twin_ok']},
      'sample_obs': {'root': text0},
  }


def shrinks(case):
  if case.get('pre_static'):
    c = copy.deepcopy(case)
    c['pre_static'] = False
    yield c
  yield from shrink.tree_shrinks(case, {'bad', 'stmts'}, allow_empty=True)
  if len(case['files']) > 1:
    # drop the last file (children are always later in the list)
    c = copy.deepcopy(case)
    c['files'].pop()
    yield c
  for fi, f in enumerate(case['files']):
    for ii in range(len(f['imports'])):
      if len(f['imports']) > 1:
        c = copy.deepcopy(case)
        imp = c['files'][fi]['imports'].pop(ii)
        if not any(s.get('imp') == imp or s.get('timp') == imp
                   for s in c['files'][fi]['stmts']):
          yield c
