"""C15 - skip_unknown drops exactly the statements that target unknown names.

Environment-fault injection (DESIGN 3/C15): config texts mix bindings, blocks,
macros, references and imports whose targets are known or unknown (not
registered; missing module; under dynamic registration not resolvable through
the file's own imports), parsed with skip_unknown in {False, True, list, tuple,
set}.  The model computes, statement by statement, the store that the reduced
text yields (placeholders for unknown references in kept bindings); a twin world
parses the reduced text without skip_unknown when no placeholder is involved.
Registration of a name between two parses is part of the history.
"""
import copy

from ginsim import cfgtext, probes, shrink, world

ID = 'C15'
LEVEL = 'exploration'
QUICK_RUNS = 15000
THOROUGH_RUNS = 400000
SHRINK_BUDGET = 250
RULE = ('run i draws from Random("<seed>/C15/<i>") 1-3 parses of 2-8 '
        'statements (flat bindings, blocks, macro definitions, imports) whose '
        'targets / references / modules are known or unknown, each parse with '
        'its own skip_unknown (False, True, list / tuple / set covering a drawn '
        'subset of unknown AND known names), optionally with dynamic '
        'registration, with a late registration between parses, followed by '
        'calls and finalize that use kept placeholders. Non-trivial = >=1 '
        'statement dropped and >=1 kept in the same parse; distinct = digest of '
        'the event log.')
COMPONENTS = {
    'real': ['_should_skip', 'ParserDelegate placeholders', 'parse_config '
             'statement consumer', 'find_unknown_references_hook', 'dynamic '
             'registration name resolution'],
    'simulated': ['environment faults: unknown configurable / missing module at '
                  'a chosen statement', 'import targets are virtual modules'],
    'stub': ['probe configurables'],
}
ASSUMPTIONS = ['a binding whose own target is unknown never contains an unknown '
               'reference that the skip list does not cover (the value is '
               'parsed before the target is judged; the property is silent)']
KNOWN = ['f0', 'f1']
LATE = 'late0'
# a method of a class: both get registered together with LATE, and the method is
# then renamed under its class
LATE_METHOD = 'LateK.lmeth'
UNKNOWN = ['ghost0', 'ghost1', 'pk.ghost2']
DYN_MOD = 'vsim_c15.moda'
IMPREG = 'impreg'


def _val(rng, allow_unknown_ref=True, allow_macro=True):
  r = rng.random()
  if not allow_macro and 0.85 <= r < 0.93:
    r = 0.1
  if r < 0.5:
    return {'lit': rng.randint(0, 99)}
  if r < 0.65:
    # known references point at a producer that is never a binding target, so
    # no reference cycle can be generated
    return {'ref': [rng.choice(['', 's', 's/t']), 'prod', rng.random() < 0.5]}
  if r < 0.85 and allow_unknown_ref:
    return {'ref': [rng.choice(['', 's', 's/t']), rng.choice(UNKNOWN + [LATE]),
                    rng.random() < 0.5]}
  if r < 0.93:
    return {'macro': 'M0'}
  return {'list': [_val(rng, allow_unknown_ref, allow_macro), {'lit': 1}]}


class _FailingModuleFinder(object):
  """Simulated import system: `vsim_c15_optdep` is found, and fails on import
  the way a module with a missing optional dependency does."""

  @staticmethod
  def find_spec(name, path=None, target=None):
    if name not in ('vsim_c15_optdep', 'vsim_c15_registers'):
      return None
    import importlib.machinery

    class _Loader(object):

      @staticmethod
      def create_module(spec):
        return None

      @staticmethod
      def exec_module(module):
        if module.__name__ == 'vsim_c15_optdep':
          raise ImportError('optional dependency missing')
        # vsim_c15_registers: importing it registers the configurable mm.impreg
        # (the usual way a name becomes known in the middle of a file)
        def impreg(a='dflt', b='dflt'):
          return (a, b)
        module.impreg = world.gin.configurable('impreg', module='mm')(impreg)
    return importlib.machinery.ModuleSpec(name, _Loader())


def _install_failing_module_finder():
  import sys
  if not any(isinstance(f, type) and f.__name__ == '_FailingModuleFinder'
             for f in sys.meta_path):
    sys.meta_path.insert(0, _FailingModuleFinder)


def gen(rng, tier):
  dynamic = rng.random() < 0.2
  parses = []
  for pi in range(rng.randint(1, 3)):
    stmts = []
    for _ in range(rng.randint(2, 8 if tier == 'thorough' else 6)):
      r = rng.random()
      # ('impreg' becomes known when some text imports vsim_c15_registers)
      target = rng.choice(KNOWN + KNOWN + UNKNOWN + [LATE, LATE_METHOD] +
                          [IMPREG, IMPREG])
      known_target = target in KNOWN
      if r < 0.55:
        stmts.append({'k': 'bind', 'scope': rng.choice(['', '', 's']),
                      'sel': target, 'param': rng.choice(['a', 'b']),
                      'val': _val(rng, allow_unknown_ref=known_target)})
      elif r < 0.75:
        stmts.append({'k': 'block', 'scope': rng.choice(['', 's']),
                      'sel': target,
                      'members': [[p, _val(rng, allow_unknown_ref=known_target)]
                                  for p in rng.sample(['a', 'b'],
                                                      rng.randint(1, 2))]})
      elif r < 0.87:
        val = _val(rng, True, allow_macro=False)

        def unevaluate(node):
          # M0 may be used by a binding of LATE: an evaluated @late0() inside
          # M0 would then be a cycle of the generated configuration itself
          if 'ref' in node and node['ref'][1] == LATE:
            node['ref'][2] = False
          for x in node.get('list', []):
            unevaluate(x)
        unevaluate(val)
        stmts.append({'k': 'macro', 'name': 'M0', 'val': val})
      else:
        stmts.append({'k': 'import', 'form': 'import',
                      # (vsim_c15_optdep exists, but importing it fails with
                      # an ImportError of its own: "optional dependency
                      # missing", without the name of a missing module)
                      'module': rng.choice(['vsim_mods.alpha',
                                            'no_such_module_c15',
                                            'vsim_mods.missing_sub',
                                            'vsim_c15_optdep',
                                            'vsim_c15_registers',
                                            'vsim_c15_registers']),
                      'alias': None})
    r = rng.random()
    names = UNKNOWN + [LATE, LATE_METHOD, IMPREG] + KNOWN
    if r < 0.1:
      skip = {'t': 'bool', 'v': False}
    elif r < 0.45:
      skip = {'t': 'bool', 'v': True}
    else:
      # mostly generous lists (so that parses get past their first unknown
      # name), which may also name registered configurables
      chosen = [n for n in names if rng.random() < 0.75]
      skip = {'t': rng.choice(['list', 'tuple', 'set']), 'v': sorted(chosen)}
    parses.append({'stmts': stmts, 'skip': skip,
                   'register_late_before': rng.random() < 0.3,
                   'how': rng.choice(['string', 'string', 'list'])})
  dyn = None
  if dynamic:
    dyn = {'stmts': [rng.choice([
        {'sel': 'ma.dfn0', 'param': 'x', 'kind': 'importable'},
        {'sel': 'ma.nothing', 'param': 'x', 'kind': 'no_attr'},
        {'sel': 'zz.dfn0', 'param': 'x', 'kind': 'no_symbol'},
        {'sel': 'ma.dfn1', 'param': 'x', 'kind': 'importable'},
        # Gin's own configurables, which every dynamic-registration file knows
        # under the reserved name `gin`
        {'sel': 'lbl/gin.macro', 'param': 'value', 'kind': 'builtin'},
        {'sel': 'sh/gin.singleton', 'param': 'constructor', 'kind': 'builtin'}])
                     for _ in range(rng.randint(1, 4))],
           'skip': rng.choice([True, True, False]),
           'preregister': rng.random() < 0.4,
           'use_before_import': rng.random() < 0.3}
  return {'parses': parses, 'dyn': dyn, 'use': rng.random() < 0.7,
          # texts parsed with skip_unknown=True spell the late configurable by
          # its complete name (before and after it gets registered)
          'full_late': rng.random() < 0.3}


def _skip_value(skip):
  if skip['t'] == 'bool':
    return skip['v']
  if skip['t'] == 'list':
    return list(skip['v'])
  if skip['t'] == 'tuple':
    return tuple(skip['v'])
  return set(skip['v'])


def run(case):
  gin = world.gin
  world.reset()
  log = probes.Log()
  viol = []
  stats = {'dropped': 0, 'kept': 0, 'placeholders': 0, 'mixed_parses': 0,
           'must_fail': 0, 'late_registered': 0, 'dyn_importable_skipped': 0}

  def v(oracle, disc, msg):
    if len(viol) < 12:
      viol.append({'oracle': oracle, 'sig': [ID, oracle] + list(disc),
                   'msg': msg})

  def hook(name, named, args, kwargs, self_):
    return dict(named)

  def register(name):
    obj, _ = probes.compile_probe(
        {'name': name, 'kind': 'fn',
         'params': [{'n': p, 'k': 'def', 'd': 'dflt'} for p in 'ab']}, hook)
    return probes.register_probe({'name': name, 'module': 'mm'}, obj)

  def register_late_class():
    g = {'__name__': 'ginsim_probes'}
    exec('class LateK:\n  def __init__(self, a="dflt", b="dflt"):\n    pass\n'  # pylint: disable=exec-used
         '  def lmeth(self, a="dflt", b="dflt"):\n    return (a, b)\n', g)
    cls = g['LateK']
    cls.lmeth = gin.register(cls.lmeth)
    gin.register(module='mm')(cls)

  def setup():
    fns = {n: register(n) for n in KNOWN}
    register('prod')
    probes.plant_module('vsim_mods.alpha')
    _install_failing_module_finder()
    import sys
    sys.modules.pop('vsim_c15_registers', None)   # imported anew in this world
    return fns

  fns = setup()
  known = set(KNOWN)
  expected = {}    # (scope, name) -> {param: shown}
  placeholders = {}  # (scope, name, param) -> True when the value holds one
  ever_ph = [False]

  def shown(vs, skip, known_now):
    """Returns (text, has_placeholder, error)."""
    if 'lit' in vs:
      return repr(vs['lit']), False, None
    if 'macro' in vs:
      return '@%s/gin.macro()' % vs['macro'], False, None
    if 'ref' in vs:
      sc, name, ev = vs['ref']
      scoped = (sc + '/' if sc else '') + name
      if name in known_now or name == 'prod':
        return '@%s%s' % (scoped, '()' if ev else ''), False, None
      covered = (skip is True) or (not isinstance(skip, bool) and name in skip)
      if covered:
        return '@?%s%s' % (name, '()' if ev else ''), True, None
      return None, False, 'unknown-reference'
    items = []
    ph = False
    for x in vs['list']:
      t, p, err = shown(x, skip, known_now)
      if err:
        return None, False, err
      items.append(t)
      ph = ph or p
    return '[' + ', '.join(items) + ']', ph, None

  def model_parse(stmts, skip, known_now):
    """Applies statements to `expected`; returns (error kind or None, reduced
    statement list, used_placeholder)."""
    reduced = []
    used_ph = False
    dropped = kept = 0
    for s in stmts:
      if s['k'] == 'import':
        missing = s['module'] not in ('vsim_mods.alpha', 'vsim_c15_registers')
        if s['module'] == 'vsim_c15_registers':
          known_now.add(IMPREG)   # from this statement on, for good
        if missing:
          if skip:
            dropped += 1
            continue
          return 'ImportError', reduced, used_ph, dropped, kept
        reduced.append(s)
        kept += 1
        continue
      if s['k'] == 'macro':
        t, ph, err = shown(s['val'], skip, known_now)
        if err:
          return err, reduced, used_ph, dropped, kept
        expected.setdefault((s['name'], 'gin.macro'), {})['value'] = t
        used_ph = used_ph or ph
        if ph:
          placeholders[(s['name'], 'gin.macro', 'value')] = True
          ever_ph[0] = True
        else:
          placeholders.pop((s['name'], 'gin.macro', 'value'), None)
        reduced.append(s)
        kept += 1
        continue
      target = s['sel']
      members = [[s['param'], s['val']]] if s['k'] == 'bind' else s['members']
      # the value is parsed before the target is judged
      texts = []
      for p, val in members:
        t, ph, err = shown(val, skip, known_now)
        if err:
          return err, reduced, used_ph, dropped, kept
        texts.append((p, t, ph))
      if target not in known_now:
        covered = (skip is True) or (not isinstance(skip, bool) and
                                     target in skip)
        if covered:
          dropped += 1
          continue
        return 'unknown-configurable', reduced, used_ph, dropped, kept
      for p, t, ph in texts:
        expected.setdefault((s['scope'], 'mm.' + target), {})[p] = t
        if ph:
          placeholders[(s['scope'], 'mm.' + target, p)] = True
          used_ph = True
          ever_ph[0] = True
        else:
          placeholders.pop((s['scope'], 'mm.' + target, p), None)
      reduced.append(s)
      kept += 1
    return None, reduced, used_ph, dropped, kept

  def store():
    cfg = world.config._CONFIG  # pylint: disable=protected-access
    return {k: {p: probes.stable(x) for p, x in sorted(d.items())}
            for k, d in sorted(cfg.items()) if d}

  def expected_store():
    out = {}
    for (scope, name), d in sorted(expected.items()):
      out[(scope, name)] = {p: t for p, t in sorted(d.items())}
    return {k: d for k, d in out.items() if d}

  def normalise(st):
    """Real store values rendered like the model renders them."""
    out = {}
    for k, d in st.items():
      out[k] = {p: x.replace("'", "'") for p, x in d.items()}
    return out

  # The macro every text may use always has a definition.
  gin.parse_config('M0 = 0')
  expected[('M0', 'gin.macro')] = {'value': '0'}
  for pi, ps in enumerate(case['parses']):
    if ps['register_late_before'] and LATE not in known:
      fns[LATE] = register(LATE)
      register_late_class()
      known.add(LATE)
      known.add(LATE_METHOD)
      stats['late_registered'] += 1
    skip = _skip_value(ps['skip'])
    before_expected = copy.deepcopy(expected)
    err, reduced, used_ph, dropped, kept = model_parse(ps['stmts'], skip,
                                                       known)
    stats['dropped'] += dropped
    stats['kept'] += kept
    if dropped and kept:
      stats['mixed_parses'] += 1
    spelled = ps['stmts']
    if case.get('full_late') and skip is True:
      spelled = [dict(s, sel='mm.' + LATE) if s.get('sel') == LATE else s
                 for s in ps['stmts']]
    text = '\n'.join(l for s in spelled for l in cfgtext.stmt_lines(s, None))
    exc = None
    try:
      if ps['how'] == 'list':
        gin.parse_config(text.split('\n') if not any(
            s['k'] == 'block' for s in ps['stmts']) else text, skip_unknown=skip)
      else:
        gin.parse_config(text, skip_unknown=skip)
    except Exception as e:  # pylint: disable=broad-except
      exc = e
    log.add('parse', pi, ps['skip'], type(exc).__name__ if exc else None)
    what = 'parse %d with skip_unknown=%r of:\n%s' % (pi, skip, text)
    if err:
      stats['must_fail'] += 1
      if exc is None:
        v('C15.uncovered_unknown_is_error', [err],
          '%s\nsucceeded although it contains an unknown name not covered by '
          'skip_unknown (%s)' % (what, err))
    elif exc is not None:
      v('C15.covered_unknown_is_skipped', [type(exc).__name__],
        '%s\nraised %s: %s' % (what, type(exc).__name__,
                               probes.scrub(str(exc))[:300]))
      expected.clear()
      expected.update(before_expected)
      break
    if not exc:
      try:
        text_now = gin.config_str()
        if any(s['k'] == 'import' and s['module'] != 'vsim_mods.alpha'
               for s in ps['stmts']) and 'no_such_module_c15' in text_now:
          v('C15.skipped_import_leaves_no_trace', [],
            'the skipped import of a missing module is recorded in '
            'config_str():\n%s' % text_now)
      except Exception as e:  # pylint: disable=broad-except
        v('C15.skipped_import_leaves_no_trace', [type(e).__name__],
          '%s\nconfig_str() afterwards raised %s: %s' %
          (what, type(e).__name__, probes.scrub(str(e))[:300]))
    got = store()
    want = expected_store()
    if got != want:
      only_real = {k: d for k, d in got.items() if want.get(k) != d}
      only_model = {k: d for k, d in want.items() if got.get(k) != d}
      kind = 'known-binding-dropped' if any(
          k not in got or set(d) - set(got.get(k, {}))
          for k, d in only_model.items()) else 'other'
      v('C15.reduced_text_equivalence', [kind],
        '%s\nleft the store\n %r\nwhile deleting exactly the covered unknown '
        'statements gives\n %r' % (what, only_real, only_model))
      break
    if err:
      break
  # twin: the reduced text of the LAST successful parse sequence, parsed without
  # skip_unknown in a reset world, must give the same store (only when no
  # placeholder is kept and nothing failed).
  if not viol and not ever_ph[0]:
    final = store()
    world.reset()
    fns2 = setup()
    known2 = set(KNOWN)
    gin.parse_config('M0 = 0')
    expected2 = {('M0', 'gin.macro'): {'value': '0'}}
    ok = True
    for ps in case['parses']:
      if ps['register_late_before'] and LATE not in known2:
        register(LATE)
        register_late_class()
        known2.add(LATE)
        known2.add(LATE_METHOD)
      skip = _skip_value(ps['skip'])
      saved = (expected, placeholders)
      expected, placeholders = expected2, {}
      err, reduced, used_ph, _, _ = model_parse(ps['stmts'], skip, known2)
      expected2 = expected
      expected, placeholders = saved
      try:
        gin.parse_config(cfgtext.flat_text(reduced), skip_unknown=False)
      except Exception as e:  # pylint: disable=broad-except
        if not err:
          v('C15.twin', [type(e).__name__],
            'the reduced text does not parse without skip_unknown: %r\n%s' %
            (e, cfgtext.flat_text(reduced)))
        ok = False
        break
      if err:
        break
    if ok and not viol:
      twin = store()
      if twin != final:
        v('C15.reduced_text_equivalence', ['twin'],
          'store after the skip_unknown parses %r differs from the store of the '
          'reduced texts parsed strictly %r' % (final, twin))
    # continue the use phase in this (equivalent) world
    fns = fns2
  # ---- placeholders must raise on use and at finalize --------------------------
  if case['use'] and not viol:
    cfg_has_ph = bool(placeholders)
    for (scope, name, param) in sorted(placeholders):
      if name == 'gin.macro':
        continue
      short = name.split('.')[-1]
      if short not in fns:
        continue
      stats['placeholders'] += 1
      exc = None
      try:
        with gin.config_scope(scope if scope else None):
          fns[short]()
      except Exception as e:  # pylint: disable=broad-except
        exc = e
      log.add('use', scope, name, param, type(exc).__name__ if exc else None)
      if exc is None:
        v('C15.placeholder_raises_on_use', ['no-error'],
          'calling %s under %r with a parameter holding an unknown-reference '
          'placeholder did not raise' % (name, scope))
      elif not isinstance(exc, ValueError) or \
          'No configurable matching' not in str(exc):
        v('C15.placeholder_raises_on_use', [type(exc).__name__],
          'placeholder use raised %s: %s' % (type(exc).__name__,
                                             probes.scrub(str(exc))[:200]))
      # asking for the (resolved) bindings uses the value as well
      exc = None
      got = None
      try:
        with gin.config_scope(scope if scope else None):
          got = gin.get_bindings(name)
      except Exception as e:  # pylint: disable=broad-except
        exc = e
      log.add('get_bindings', scope, name, type(exc).__name__ if exc else None)
      if exc is None:
        v('C15.placeholder_raises_on_use', ['get_bindings', 'no-error'],
          'get_bindings(%r) under %r handed out %s although %s holds an '
          'unknown-reference placeholder' %
          (name, scope, probes.scrub(repr(got))[:200], param))
      elif 'No configurable matching' not in str(exc):
        v('C15.placeholder_raises_on_use', ['get_bindings',
                                            type(exc).__name__],
          'get_bindings raised %s: %s' % (type(exc).__name__,
                                          probes.scrub(str(exc))[:200]))
    if cfg_has_ph and world.config._CONFIG:  # pylint: disable=protected-access
      exc = None
      try:
        gin.finalize()
      except Exception as e:  # pylint: disable=broad-except
        exc = e
      log.add('finalize', type(exc).__name__ if exc else None)
      # a placeholder that sits only in an unused macro value is still reported
      if exc is None:
        v('C15.placeholder_raises_at_finalize', ['no-error'],
          'finalize() accepted a configuration holding unknown-reference '
          'placeholders %r' % sorted(placeholders))
  # ---- dynamic registration -----------------------------------------------------
  dyn = case.get('dyn')
  if dyn and not viol:
    world.reset()

    def mkfn(nm):
      g = {'__name__': DYN_MOD}
      exec('def %s(x=0):\n  return x\n' % nm, g)  # pylint: disable=exec-used
      return g[nm]
    m = probes.plant_module(DYN_MOD, {'dfn0': mkfn('dfn0'), 'dfn1': mkfn('dfn1')})
    header = ['from __gin__ import dynamic_registration',
              'import %s as ma' % DYN_MOD]
    if dyn['preregister']:
      # an earlier parse already registered the names
      gin.parse_config(header + ['ma.dfn0.x = 0', 'ma.dfn1.x = 0'])
      gin.clear_config()
    lines = list(header)
    want = {}
    must_fail = None
    if dyn.get('use_before_import'):
      # the symbol is used before the file imports it: unknown at that point
      # (skipped or an error), known afterwards
      lines = [header[0], 'ma.dfn0.x = 7', header[1]]
      if not dyn['skip']:
        must_fail = 'no_symbol'
    for i, s in enumerate(dyn['stmts']):
      lines.append('%s.%s = %d' % (s['sel'], s['param'], 100 + i))
      if must_fail:
        continue
      if s['kind'] == 'builtin':
        want['%s.%s' % (s['sel'].split('/')[1], s['param'])] = 100 + i
      elif s['kind'] == 'importable':
        # the configurable's module is the import's bound path ('vsim_c15.ma')
        want['%s.%s' % (s['sel'].replace('ma.', 'vsim_c15.ma.'), s['param'])] = \
            100 + i
      elif not dyn['skip']:
        must_fail = s['kind']
    exc = None
    try:
      gin.parse_config(lines, skip_unknown=dyn['skip'])
    except Exception as e:  # pylint: disable=broad-except
      exc = e
    log.add('dyn', dyn['skip'], dyn['preregister'],
            type(exc).__name__ if exc else None)
    got = {}
    for (scope, sel), d in world.config._CONFIG.items():  # pylint: disable=protected-access
      for p, val in d.items():
        got['%s.%s' % (sel, p)] = val
    if must_fail:
      if exc is None:
        v('C15.uncovered_unknown_is_error', ['dynamic', must_fail],
          'dynamic registration: %r parsed without skip_unknown although %s' %
          (lines, must_fail))
    elif exc is not None:
      v('C15.covered_unknown_is_skipped', ['dynamic', type(exc).__name__],
        'dynamic registration: %r with skip_unknown=%r raised %r' %
        (lines, dyn['skip'], exc))
    if (exc is None or must_fail) and got != want:
      missing = sorted(set(want) - set(got))
      if missing:
        stats['dyn_importable_skipped'] += 1
      v('C15.reduced_text_equivalence',
        ['dynamic', 'importable-binding-dropped' if missing else 'other',
         'preregistered' if dyn['preregister'] else 'first-parse'],
        'dynamic registration, skip_unknown=%r, earlier parse registered the '
        'names: %r\n%s\nstore %r, expected %r (names resolvable through the '
        "file's own imports are known)" %
        (dyn['skip'], dyn['preregister'], '\n'.join(lines), got, want))
  seen = set()
  uniq = []
  for x in viol:
    t = tuple(x['sig'])
    if t not in seen:
      seen.add(t)
      uniq.append(x)
  log.add('viol', sorted(repr(x['sig']) for x in uniq))
  return {
      'violations': uniq, 'digest': log.digest(), 'key': log.digest(),
      'nontrivial': stats['mixed_parses'] > 0,
      'steps': len(log.events),
      'ops': {'statements_kept': stats['kept'],
              'parses': len(case['parses'])},
      'faults': {'unknown_statement_dropped': stats['dropped'],
                 'uncovered_unknown_must_fail': stats['must_fail']},
      'probes': {'placeholder_used': stats['placeholders'],
                 'late_registration_between_parses': stats['late_registered'],
                 'dynamic_runs': 1 if dyn else 0},
      'sample_obs': [probes.stable(e) for e in log.events[:6]],
  }


def shrinks(case):
  if case.get('dyn'):
    c = copy.deepcopy(case)
    c['parses'] = []
    yield c
    c = copy.deepcopy(case)
    c['dyn'] = None
    yield c
  yield from shrink.tree_shrinks(case, {'parses', 'stmts', 'members', 'v'},
                                 allow_empty=True)
