"""C05 - macros and constants are late-bound named values.

Multi-parse / multi-file histories (DESIGN 3/C05): macro definitions and uses
are generated in every relative order across several parse_config calls and
simulated files (definition inside an included file, redefinition in a later
call), macros bound to evaluated references, scope-like macro names, constants
with shared dotted suffixes, and finalize as an operation.  A model holding the
latest binding of each macro is the oracle at every consumer call.
"""
import collections
import copy

from ginsim import cfgtext, probes, shrink, vfs, world

ID = 'C05'
LEVEL = 'exploration'
QUICK_RUNS = 20000
THOROUGH_RUNS = 500000
SHRINK_BUDGET = 250
RULE = ('run i draws from Random("<seed>/C05/<i>") constants (dotted names with '
        'shared suffixes, invalid names, duplicates), and a history of 3-16 '
        'operations: parse_config of 1-3 statements (macro definition with a '
        'literal / @producer() / %other value, consumer binding that uses '
        '%name at any nesting, abbreviated or ambiguous %constant), with '
        'skip_unknown False / True / list; parse of a simulated file that '
        'includes another; consumer call (values compared with the model\'s '
        'latest bindings at call time); finalize (root or under an active '
        'scope). Non-trivial = >=1 macro used before its (re)definition and '
        'delivered with the later value; distinct = digest of the event log.')
COMPONENTS = {
    'real': ['ParserDelegate.macro (constant vs macro decision)', 'gin.macro / '
             'gin.constant configurables', 'gin.constant definition checks',
             'finalize + validate_macros_hook', 'parse_config / '
             'parse_config_file'],
    'simulated': ['file system for included files (VFS)'],
    'stub': ['probe configurables'],
}
ASSUMPTIONS = ['constants are defined before the text that uses them is parsed',
               'a scope-like macro %a/b that is unbound while %a is bound is '
               'only judged at finalize (the property is silent about its '
               'call-time value)']
MACROS = ['M0', 'M1', 'M2', 'sc/M3', 'sc/in/M4', 'M0/sub']
# macros that only ever hold hashable literals: used as dict KEYS
KEYMACROS = ['KM0', 'KM1']
CONST_POOL = ['PI', 'mod.PI', 'pk.mod.PI', 'other.PI', 'E', 'pk.E', 'x.y.Z']


def _macro_value(rng, nprod, defined_ok=True):
  r = rng.random()
  if r < 0.5:
    return {'lit': rng.choice([rng.randint(0, 999), 's%d' % rng.randint(0, 99),
                               [rng.randint(0, 9)], None,
                               # values that compare equal across types: a
                               # re-definition 1 -> True -> 1.0 is a change
                               rng.choice([1, True, 1.0, 0, False, 0.0])])}
  if r < 0.75:
    return {'ref': ['', 'prod%d' % rng.randrange(nprod), True]}
  if r < 0.9:
    return {'macro': rng.choice(MACROS[:3])}
  return {'list': [{'lit': rng.randint(0, 9)},
                   {'ref': ['', 'prod%d' % rng.randrange(nprod), True]}]}


def _use_value(rng, names):
  r = rng.random()
  m = {'macro': rng.choice(names)}
  if rng.random() < 0.08:
    # two %names as the KEYS of one dict literal
    return {'dict': [[{'macro': 'KM0'}, {'lit': 1}], [{'macro': 'KM1'}, m]]}
  if rng.random() < 0.15 and names[0].startswith('M'):
    # the same thing spelled as an evaluated reference with a partial name
    m = {'ref': [rng.choice([n for n in names if '/' not in n]), 'macro', True]}
  if r < 0.5:
    return m
  if r < 0.7:
    return {'list': [m, {'lit': 1}]}
  if r < 0.85:
    return {'dict': [[{'lit': 'k'}, m], [{'lit': 'j'},
                                         {'tuple': [{'macro': rng.choice(names)}]}]]}
  return {'tuple': [m, {'macro': rng.choice(names)}]}


def gen(rng, tier):
  nprod = rng.randint(1, 2)
  consts = []
  for _ in range(rng.randint(0, 4)):
    r = rng.random()
    if r < 0.75:
      consts.append({'name': rng.choice(CONST_POOL), 'kind': 'ok'})
    elif r < 0.88:
      consts.append({'name': rng.choice(['a b', '1x', '', 'x..y', 'a/b',
                                         'nl.NAME\n']),
                     'kind': 'invalid'})
    else:
      consts.append({'name': rng.choice(CONST_POOL), 'kind': 'ok',
                     'falsy': True})
  const_names = [c['name'] for c in consts if c['kind'] == 'ok']
  abbrevs = set()
  for n in const_names:
    parts = n.split('.')
    for i in range(len(parts)):
      abbrevs.add('.'.join(parts[i:]))
  ops = []
  nfile = [0]
  if rng.random() < 0.6:
    # uses first, definitions later: the order the suite never tries
    ops.append({'op': 'parse', 'skip': False, 'stmts': [
        {'k': 'bind', 'scope': rng.choice(['', 's1']),
         'sel': 'cons%d' % rng.randint(0, 1), 'param': rng.choice(['x', 'y']),
         'val': _use_value(rng, MACROS[:3])}
        for _ in range(rng.randint(1, 2))]})
  for _ in range(rng.randint(3, 16 if tier == 'thorough' else 12)):
    r = rng.random()
    if r < 0.5:
      stmts = []
      for _ in range(rng.randint(1, 3)):
        k = rng.random()
        if k < 0.12:
          stmts.append({'k': 'macro', 'name': rng.choice(KEYMACROS),
                        'val': {'lit': rng.choice(['ka', 'kb', 7])}})
        elif k < 0.5:
          stmts.append({'k': 'macro', 'name': rng.choice(MACROS),
                        'val': _macro_value(rng, nprod)})
        elif k < 0.85 or not abbrevs:
          stmts.append({'k': 'bind', 'scope': rng.choice(['', '', 's1']),
                        'sel': 'cons%d' % rng.randint(0, 1),
                        'param': rng.choice(['x', 'y']),
                        'val': _use_value(rng, MACROS)})
        else:
          stmts.append({'k': 'bind', 'scope': '', 'sel': 'cons0',
                        'param': rng.choice(['x', 'y']),
                        'val': _use_value(rng, sorted(abbrevs))})
      skip = rng.choice([False, False, False, True, ['M0', 'M1', 'nope'],
                         ['unknown_fn']])
      if rng.random() < 0.25 and nfile[0] < 3:
        # the same statements, but through a file that includes another one
        nfile[0] += 1
        cut = rng.randint(0, len(stmts))
        ops.append({'op': 'parse_file', 'n': nfile[0], 'outer_before': stmts[:cut],
                    'inner': stmts[cut:], 'skip': skip,
                    'include_first': rng.random() < 0.5})
      else:
        ops.append({'op': 'parse', 'stmts': stmts, 'skip': skip})
    elif r < 0.85:
      ops.append({'op': 'call', 'cons': 'cons%d' % rng.randint(0, 1),
                  'scope': rng.choice(['', '', 's1', 'zz'])})
    elif r < 0.9:
      ops.append({'op': 'finalize', 'scope': rng.choice(['', '', '', 'zz'])})
    elif r < 0.905:
      # a value built in Python: a container that is no list / tuple / dict,
      # holding a %name reference
      ops.append({'op': 'bind_container', 'scope': rng.choice(['', 's1']),
                  'sel': 'cons%d' % rng.randint(0, 1),
                  'param': rng.choice(['x', 'y']),
                  'name': rng.choice(MACROS[:3])})
    elif r < 0.93:
      ops.append({'op': 'clear', 'constants': rng.random() < 0.6})
      if abbrevs and rng.random() < 0.7:
        # straight afterwards the names that were (abbreviations of) constants
        # are used again: constants still, or - cleared - ordinary macros
        bare = sorted(a for a in abbrevs if '.' not in a)
        stmts = [{'k': 'bind', 'scope': '', 'sel': 'cons0', 'param': 'x',
                  'val': _use_value(rng, sorted(abbrevs))}]
        if bare and rng.random() < 0.6:
          stmts.insert(rng.randint(0, 1),
                       {'k': 'macro', 'name': rng.choice(bare),
                        'val': {'lit': rng.randint(0, 999)}})
        ops.append({'op': 'parse', 'stmts': stmts, 'skip': False})
        ops.append({'op': 'call', 'cons': 'cons0', 'scope': ''})
    elif r < 0.96:
      # a constant defined AFTER some texts were parsed
      ops.append({'op': 'constant', 'name': rng.choice(CONST_POOL), 'kind': 'ok',
                  'falsy': rng.random() < 0.2})
    else:
      ops.append({'op': 'unevaluated_use', 'name': rng.choice(MACROS[:3])})
  if rng.random() < 0.06:
    # a definition refused because the configuration is locked leaves nothing
    # behind: after unlocking, the name is as unbound as before
    fresh = rng.choice(['LK0', 'sc/LK1'])
    ops.extend([
        {'op': 'clear', 'constants': False},
        {'op': 'parse', 'skip': False, 'stmts': [
            {'k': 'bind', 'scope': '', 'sel': 'cons0', 'param': 'x',
             'val': {'lit': 1}}]},
        {'op': 'finalize', 'scope': ''},
        {'op': 'parse', 'skip': False, 'stmts': [
            {'k': 'macro', 'name': fresh, 'val': {'lit': 5}}]},
        {'op': 'unlock'},
        {'op': 'parse', 'skip': False, 'stmts': [
            {'k': 'bind', 'scope': '', 'sel': 'cons0', 'param': 'y',
             'val': {'macro': fresh}}]},
        {'op': 'finalize', 'scope': ''},
    ])
  return {'nprod': nprod, 'consts': consts, 'ops': ops}


def run(case):
  gin = world.gin
  world.reset()
  log = probes.Log()
  viol = []
  counters = {}
  received = {}
  stats = {'late_bound_delivery': 0, 'constant_deliveries': 0,
           'finalize_rejected': 0, 'ambiguous_constant': 0, 'calls': 0}

  def v(oracle, disc, msg):
    if len(viol) < 12:
      viol.append({'oracle': oracle, 'sig': [ID, oracle] + list(disc),
                   'msg': msg})

  def hook(name, named, args, kwargs, self_):
    if name.startswith('prod'):
      counters[name] = counters.get(name, 0) + 1
      return log.tok(name)
    # the consumer keeps a copy of what it was given, then mutates the
    # containers it received: no later call may see that
    # (constants are delivered as the object itself: those are left alone)
    def mine(x):
      return not any(x is c for c in const_objs.values())
    received[name] = {k: (list(x) if type(x) is list and mine(x) else
                          dict(x) if type(x) is dict and mine(x) else x)
                      for k, x in named.items()}
    for x in named.values():
      if not mine(x):
        continue
      if type(x) is list:
        x.append('MUTATED-BY-CONSUMER')
      elif type(x) is dict:
        x['MUTATED-BY-CONSUMER'] = 1
    return None

  for i in range(case['nprod']):
    obj, _ = probes.compile_probe({'name': 'prod%d' % i, 'kind': 'fn',
                                   'params': []}, hook)
    probes.register_probe({'name': 'prod%d' % i}, obj)
  cons = {}
  for i in range(2):
    obj, _ = probes.compile_probe(
        {'name': 'cons%d' % i, 'kind': 'fn',
         'params': [{'n': p, 'k': 'def', 'd': 'dflt'} for p in 'xy']}, hook)
    cons['cons%d' % i] = probes.register_probe({'name': 'cons%d' % i}, obj)

  # ---- constants -----------------------------------------------------------
  const_objs = {}

  def define_constant(c):
    name = c['name']
    obj = probes.Tok(0, 'const:' + name) if not c.get('falsy') else \
        rng_free_falsy(name)
    exc = None
    try:
      gin.constant(name, obj)
    except Exception as e:  # pylint: disable=broad-except
      exc = e
    log.add('constant', name, type(exc).__name__ if exc else None)
    if c['kind'] == 'invalid':
      if exc is None:
        v('C05.constant_name', ['invalid-accepted'],
          'gin.constant(%r, ...) was accepted' % name)
      elif not isinstance(exc, ValueError):
        v('C05.constant_name', ['invalid', type(exc).__name__],
          'gin.constant(%r) raised %s, expected ValueError' %
          (name, type(exc).__name__))
      return
    if name in const_objs:
      if exc is None:
        v('C05.constant_duplicate', ['accepted'],
          'a second gin.constant(%r, ...) was accepted (first value %r)' %
          (name, const_objs[name]))
        const_objs[name] = obj
      elif not isinstance(exc, ValueError):
        v('C05.constant_duplicate', [type(exc).__name__],
          'duplicate gin.constant(%r) raised %s, expected ValueError' %
          (name, type(exc).__name__))
    elif exc is None:
      const_objs[name] = obj
    # (a name that merely abbreviates / is abbreviated by an existing constant
    # may be rejected by gin; the property does not say, so it is not judged)


  for c in case['consts']:
    define_constant(c)

  def resolve_const(abbrev):
    """Model A1 over constant names: returns object, 'ambiguous' or None."""
    if abbrev in const_objs:
      return const_objs[abbrev]
    cands = [n for n in const_objs if n.endswith('.' + abbrev)]
    if len(cands) == 1:
      return const_objs[cands[0]]
    if len(cands) > 1:
      return 'ambiguous'
    return _NO_CONST

  # ---- model -----------------------------------------------------------------
  macros = {}           # name -> ValueSpec (latest)
  store = {}            # (scope, cons) -> {param: ValueSpec}
  uneval_refs = set()   # macro names referenced without evaluation
  locked = [False]
  used_before_def = set()

  def names_in(vs, out):
    """Names of the MACROS a (parse-time annotated) value refers to."""
    if 'macro' in vs and 'const' not in vs:
      out.append(vs['macro'])
    if 'ref' in vs and vs['ref'][1] == 'macro':
      out.append(vs['ref'][0])   # explicit @NAME/macro() spelling
    for key in ('list', 'tuple', 'deque'):
      for x in vs.get(key, []):
        names_in(x, out)
    for k, x in vs.get('dict', []):
      names_in(k, out)
      names_in(x, out)

  def annotate(vs):
    """Fixes, as gin does at parse time, whether each %name is a constant (and
    which one) or a macro; returns None when an abbreviation is ambiguous."""
    vs = copy.deepcopy(vs)

    def walk(node):
      if 'macro' in node:
        n = node['macro']
        if n in const_objs:
          node['const'] = n
        else:
          cands = [c for c in const_objs if c.endswith('.' + n)]
          if len(cands) > 1:
            return False
          if len(cands) == 1:
            node['const'] = cands[0]
        return True
      for key in ('list', 'tuple', 'deque'):
        for x in node.get(key, []):
          if not walk(x):
            return False
      for k, x in node.get('dict', []):
        if not walk(k) or not walk(x):
          return False
      return True
    return vs if walk(vs) else None

  def stmt_effect(s, skip):
    """Applies one statement to the model; returns 'error' if gin must raise."""
    val = annotate(s['val'])
    if val is None:
      stats['ambiguous_constant'] += 1
      return 'error'
    names = []
    names_in(val, names)
    if s['k'] == 'macro':
      macros[s['name']] = val
    else:
      store.setdefault((s['scope'], s['sel']), {})[s['param']] = val
      for n in names:
        if n not in macros:
          used_before_def.add(n)
    return None

  def evaluate(vs, depth=0):
    """Returns (kind, payload): the model's expectation for a delivered value."""
    if 'lit' in vs:
      return ('lit', vs['lit'])
    if 'ref' in vs and vs['ref'][1] == 'macro':
      vs = {'macro': vs['ref'][0]}
    if 'ref' in vs:
      return ('fresh', vs['ref'][1])
    if 'macro' in vs:
      n = vs['macro']
      if 'const' in vs:
        return ('is', const_objs[vs['const']])
      if n not in macros:
        return ('unbound', n)
      if depth > 6:
        return ('cycle', n)
      return evaluate(macros[n], depth + 1)
    if 'list' in vs:
      return ('list', [evaluate(x, depth) for x in vs['list']])
    if 'deque' in vs:
      return ('deque', [evaluate(x, depth) for x in vs['deque']])
    if 'tuple' in vs:
      return ('tuple', [evaluate(x, depth) for x in vs['tuple']])
    items = {}
    for k, x in vs['dict']:
      ek = evaluate(k, depth)
      if ek[0] != 'lit':
        # an unbound / cyclic key, or one this model does not follow
        return ek if ek[0] in ('unbound', 'cycle') else ('unbound', '?key')
      try:
        items[ek[1]] = evaluate(x, depth)   # (a repeated key: the later wins)
      except TypeError:
        return ('unbound', '?unhashable-key')
    return ('dict', list(items.items()))

  def has(ev, kinds):
    if ev[0] in kinds:
      return True
    if ev[0] in ('list', 'tuple', 'deque'):
      return any(has(x, kinds) for x in ev[1])
    if ev[0] == 'dict':
      return any(has(x, kinds) for _, x in ev[1])
    return False

  def count_fresh(ev, out):
    if ev[0] == 'fresh':
      out[ev[1]] = out.get(ev[1], 0) + 1
    elif ev[0] in ('list', 'tuple', 'deque'):
      for x in ev[1]:
        count_fresh(x, out)
    elif ev[0] == 'dict':
      for _, x in ev[1]:
        count_fresh(x, out)

  def compare(ev, got, path):
    k = ev[0]
    if k == 'lit':
      if got != ev[1] or type(got) is not type(ev[1]):
        v('C05.macro_value', ['literal'],
          '%s: received %r, model (latest binding) says %r' % (path, got, ev[1]))
    elif k == 'fresh':
      if not isinstance(got, probes.Tok) or got.label != ev[1]:
        v('C05.macro_value', ['evaluated-ref'],
          '%s: received %r, expected a fresh result of %s' % (path, got, ev[1]))
    elif k == 'is':
      stats['constant_deliveries'] += 1
      if got is not ev[1]:
        v('C05.constant_identity', [],
          '%s: received %r, expected the constant object %r itself' %
          (path, got, ev[1]))
    elif k in ('list', 'tuple', 'deque'):
      want_type = {'list': list, 'tuple': tuple, 'deque': collections.deque}[k]
      if type(got) is not want_type or \
          len(got) != len(ev[1]):
        v('C05.macro_value', ['container'], '%s: received %r' % (path, got))
        return
      for i, (e, g) in enumerate(zip(ev[1], got)):
        compare(e, g, '%s[%d]' % (path, i))
    elif k == 'dict':
      if type(got) is not dict or list(got) != [kk for kk, _ in ev[1]]:
        v('C05.macro_value', ['container'], '%s: received %r' % (path, got))
        return
      for kk, e in ev[1]:
        compare(e, got[kk], '%s[%r]' % (path, kk))

  fs = vfs.VFS([], nreaders=1)
  fs.register(gin)

  def do_parse(stmts, skip, how, extra=None):
    """Parses statements (as string or file); updates the model."""
    snapshot = (copy.deepcopy(macros), copy.deepcopy(store))
    must_fail = False
    # gin applies statements one by one; the first failing one stops the parse.
    applied = 0
    for s in stmts:
      if stmt_effect(s, skip) == 'error':
        must_fail = True
        break
      applied += 1
    exc = None
    try:
      if how == 'string':
        gin.parse_config(cfgtext.flat_text(stmts), skip_unknown=skip)
      else:
        gin.parse_config_file(extra, skip_unknown=skip)
    except Exception as e:  # pylint: disable=broad-except
      exc = e
    if locked[0]:
      # bindings are rejected on a finalized configuration (C12's subject)
      macros.clear(); macros.update(snapshot[0])
      store.clear(); store.update(snapshot[1])
      return exc
    if must_fail:
      if exc is None:
        v('C05.ambiguous_constant', ['accepted'],
          'a text using an ambiguous constant abbreviation parsed: %r' %
          cfgtext.flat_text(stmts))
      elif not isinstance(exc, ValueError):
        v('C05.ambiguous_constant', [type(exc).__name__],
          'ambiguous constant abbreviation raised %s' % type(exc).__name__)
    elif exc is not None:
      v('C05.parse_succeeds', [type(exc).__name__],
        'parse of %r (skip_unknown=%r) raised %s: %s' %
        (cfgtext.flat_text(stmts), skip, type(exc).__name__,
         probes.scrub(str(exc))[:300]))
    return exc

  unlock_cms = []
  for op in case['ops']:
    k = op['op']
    if k == 'parse':
      exc = do_parse(op['stmts'], op['skip'], 'string')
      log.add('parse', len(op['stmts']), type(exc).__name__ if exc else None)
    elif k == 'parse_file':
      inner_name = '/vfs/c05_inner%d.gin' % op['n']
      outer_name = '/vfs/c05_outer%d.gin' % op['n']
      inc = {'k': 'include', 'file': inner_name}
      if op['include_first']:
        outer = [inc] + op['outer_before']
        order = op['inner'] + op['outer_before']
      else:
        outer = op['outer_before'] + [inc]
        order = op['outer_before'] + op['inner']
      fs.table.setdefault(0, {})[inner_name] = cfgtext.flat_text(op['inner'])
      fs.table[0][outer_name] = '\n'.join(
          l for s in outer for l in cfgtext.stmt_lines(s, None)) + '\n'
      exc = do_parse(order, op['skip'], 'file', outer_name)
      log.add('parse_file', op['n'], type(exc).__name__ if exc else None)
    elif k == 'constant':
      define_constant(op)
    elif k == 'clear':
      try:
        gin.clear_config(clear_constants=op['constants'])
      except Exception as e:  # pylint: disable=broad-except
        v('C05.clear', [type(e).__name__], 'clear_config raised %r' % e)
      macros.clear()
      store.clear()
      uneval_refs.clear()
      used_before_def.clear()
      locked[0] = False
      if op['constants']:
        const_objs.clear()
      log.add('clear', op['constants'])
    elif k == 'unlock':
      if not locked[0]:
        continue
      cm = gin.unlock_config()
      cm.__enter__()
      unlock_cms.append(cm)
      locked[0] = False
      log.add('unlock')
    elif k == 'bind_container':
      if locked[0]:
        continue
      val = annotate({'deque': [{'macro': op['name']}]})
      if val is None:
        continue
      try:
        ref = gin.config.parse_value('%' + op['name'])
        gin.bind_parameter((op['scope'], op['sel'], op['param']),
                           collections.deque([ref]))
        store.setdefault((op['scope'], op['sel']), {})[op['param']] = val
        if op['name'] not in macros:
          used_before_def.add(op['name'])
        stats['container_binds'] = stats.get('container_binds', 0) + 1
      except Exception as e:  # pylint: disable=broad-except
        v('C05.parse_succeeds', ['bind_container', type(e).__name__],
          'binding a deque holding %%%s raised %r' % (op['name'], e))
      log.add('bind_container', op['sel'], op['param'], op['name'])
    elif k == 'unevaluated_use':
      if locked[0]:
        continue
      n = op['name']
      try:
        gin.parse_config('cons1.y = @%s/gin.macro' % n)
        store.setdefault(('', 'cons1'), {})['y'] = {'uneval': n}
        uneval_refs.add(n)
      except Exception as e:  # pylint: disable=broad-except
        v('C05.parse_succeeds', [type(e).__name__], 'unevaluated use: %r' % e)
    elif k == 'call':
      cname = op['cons']
      scope = op['scope'].split('/') if op['scope'] else []
      app = {}
      for i in range(len(scope) + 1):
        app.update(store.get(('/'.join(scope[:i]), cname), {}))
      evs = {}
      skip_call = False
      for p, vs in app.items():
        if 'uneval' in vs:
          skip_call = True
          continue
        evs[p] = evaluate(vs)
        if has(evs[p], ('unbound', 'cycle')):
          skip_call = True
      if skip_call:
        continue      # not judged here (finalize owns unbound / unevaluated)
      want_counts = {}
      for ev in evs.values():
        count_fresh(ev, want_counts)
      before = dict(counters)
      received.pop(cname, None)
      exc = None
      try:
        with gin.config_scope(scope if scope else None):
          cons[cname]()
      except Exception as e:  # pylint: disable=broad-except
        exc = e
      stats['calls'] += 1
      if exc is not None:
        v('C05.call_succeeds', [type(exc).__name__],
          'call of %s under %r raised %s: %s' %
          (cname, scope, type(exc).__name__, probes.scrub(str(exc))[:300]))
        continue
      got = received.get(cname, {})
      for p in 'xy':
        if p in evs:
          compare(evs[p], got.get(p), '%s.%s under %r' % (cname, p, scope))
          names = []
          names_in(app[p], names)
          if any(n in used_before_def and n in macros for n in names):
            stats['late_bound_delivery'] += 1
        elif got.get(p) != 'dflt':
          v('C05.macro_value', ['default'],
            '%s.%s: received %r, expected the default' % (cname, p, got.get(p)))
      got_counts = {n: counters.get(n, 0) - before.get(n, 0) for n in counters}
      got_counts = {n: c for n, c in got_counts.items() if c}
      if got_counts != want_counts:
        v('C05.macro_reevaluated_per_use', [],
          'call of %s under %r: producers ran %r, model says %r (a macro bound '
          'to an evaluated reference is re-evaluated at every use)' %
          (cname, scope, got_counts, want_counts))
      log.add('call', cname, scope, sorted(got_counts.items()))
    elif k == 'finalize':
      if locked[0]:
        continue
      # every macro referenced from the store (binding values and the values
      # of macros themselves)
      reasons = []
      refs = []
      for d in store.values():
        for vs in d.values():
          if 'uneval' in vs:
            reasons.append('unevaluated:' + vs['uneval'])
            if vs['uneval'] not in macros:
              reasons.append('unbound:' + vs['uneval'])
          else:
            names_in(vs, refs)
      for vs in macros.values():
        names_in(vs, refs)
      for n in refs:
        if n not in macros:
          reasons.append('unbound:' + n)
      exc = None
      try:
        if op['scope']:
          with gin.config_scope(op['scope']):
            gin.finalize()
        else:
          gin.finalize()
      except Exception as e:  # pylint: disable=broad-except
        exc = e
      log.add('finalize', op['scope'], type(exc).__name__ if exc else None)
      if reasons:
        stats['finalize_rejected'] += 1
        if exc is None:
          kinds = sorted({r.split(':')[0] for r in reasons})
          v('C05.finalize_rejects', kinds + (['under-scope'] if op['scope']
                                             else []),
            'finalize()%s accepted a configuration with %s' %
            (' called under scope %r' % op['scope'] if op['scope'] else '',
             sorted(set(reasons))))
          locked[0] = True
        elif gin.config_is_locked():
          v('C05.finalize_rejects', ['left-locked'],
            'rejected finalize left the configuration locked')
      else:
        if exc is not None:
          v('C05.finalize_accepts', [type(exc).__name__],
            'finalize() raised %s: %s although every referenced macro is '
            'bound and evaluated' % (type(exc).__name__,
                                     probes.scrub(str(exc))[:300]))
        else:
          locked[0] = True
  for cm in reversed(unlock_cms):
    try:
      cm.__exit__(None, None, None)
    except Exception:  # pylint: disable=broad-except
      pass
  seen = set()
  uniq = []
  for x in viol:
    t = tuple(x['sig'])
    if t not in seen:
      seen.add(t)
      uniq.append(x)
  log.add('viol', sorted(repr(x['sig']) for x in uniq))
  return {
      'violations': uniq, 'digest': log.digest(), 'key': log.digest(),
      'nontrivial': stats['late_bound_delivery'] > 0,
      'steps': len(log.events),
      'ops': {'calls': stats['calls'],
              'producer_calls': sum(counters.values())},
      'faults': {'finalize_must_reject': stats['finalize_rejected'],
                 'ambiguous_constant_use': stats['ambiguous_constant']},
      'probes': {'late_bound_delivery': stats['late_bound_delivery'],
                 'constant_deliveries': stats['constant_deliveries']},
      'sample_obs': [probes.stable(e) for e in log.events[:8]],
  }


_NO_CONST = object()


def rng_free_falsy(name):
  """A falsy constant value chosen by the name (no PRNG at run time)."""
  return [0, False, '', [], {}, None][len(name) % 6]


def shrinks(case):
  yield from shrink.tree_shrinks(case, {'ops', 'consts', 'stmts', 'inner',
                                        'outer_before'}, allow_empty=True)
