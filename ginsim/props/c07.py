"""C07 - the operative config records exactly what Gin supplied and suffices to replay.

Call histories -> operative text -> harness reset -> replay in a twin world
(DESIGN 3/C07).  Oracle A: the sections and parameters of
operative_config_str(), read back with gin's own parser, equal the model's fold
over the call history (rule A8).  Oracle B: when every supplied value is
representable, parsing the text in a reset world and repeating the calls gives
every call the same arguments and reproduces the text.
"""
import copy
import re

from ginsim import callmodel as cm
from ginsim import probes, shrink, world
from ginsim.props import c01, c18

ID = 'C07'
LEVEL = 'exploration'
QUICK_RUNS = 15000
THOROUGH_RUNS = 400000
SHRINK_BUDGET = 250
RULE = ('run i draws from Random("<seed>/C07/<i>") 1-4 consumer probes (all '
        'callable shapes, allow/deny lists), 1-2 producer probes and a history '
        'of binds (literals, evaluated references to producers, macros, '
        'non-literal objects) and calls (any scopes, any mix of caller-supplied '
        'and omitted parameters, calls whose body raises); after every few '
        'calls and at the end the operative text is compared with the model '
        'record, and the whole history is replayed from the text in a reset '
        'world. Non-trivial = >=2 calls of one configurable with different '
        'caller-supplied sets or scopes and >=1 binding; distinct = digest of '
        'the event log.')
COMPONENTS = {
    'real': ['gin wrapper (operative record update)', 'operative_config_str / '
             '_config_str', 'representability test', 'gin.config_parser (to '
             'read the text back)', 'clear-free harness reset + parse_config '
             'for the replay'],
    'simulated': ['bodies that raise (injected fault)'],
    'stub': ['probe configurables'],
}
ASSUMPTIONS = ['a parameter whose most recent supplied value is non-'
               'representable after an earlier representable one is not '
               'generated (the statement pulls both ways there)',
               'single caller thread (C18 owns concurrency of the record)']

_SECTION_RE = re.compile(r'^# Parameters for (.*):$')


def gen(rng, tier):
  nprobes = rng.randint(1, 4)
  specs = []
  for i in range(nprobes):
    specs.append(cm.gen_spec(rng, 'q%d' % i, kinds=c01.KINDS, lists=True,
                             module='mm.s%d' % (i % 2)))
  if rng.random() < 0.35:
    cands = [s for s in specs if cm.alias_eligible(s)]
    if cands:
      # the same callable registered a second time, with its own lists
      specs.append(cm.gen_alias(rng, rng.choice(cands), 'q%d' % len(specs)))
  nprod = rng.randint(1, 2)
  for i in range(nprod):
    params = [{'n': 'z%d' % j, 'k': 'def', 'd': 'pd%d_%d' % (i, j)}
              for j in range(rng.randint(0, 2))]
    specs.append({'name': 'prod%d' % i, 'kind': 'fn', 'params': params,
                  'varargs': False, 'varkw': False, 'api': 'configurable',
                  'module': 'mm.p'})
  model = cm.Model(specs)
  uid = [0]
  ops = []
  macros = {}
  nonrep = set()
  refparams = set()
  scopes_used = []
  nops = rng.randint(4, 36 if tier == 'thorough' else 22)
  for _ in range(nops):
    r = rng.random()
    spec = rng.choice(specs)
    full = cm.full_name(spec)
    if r < 0.4:
      cand = [p['n'] for p in spec['params']
              if cm.configurable_param(spec, p['n'])]
      if spec.get('varkw'):
        cand += [c for c in ('x0', 'x1') if cm.configurable_param(spec, c)]
      if not cand:
        continue
      sc = c01._scope(rng, 2)  # pylint: disable=protected-access
      if scopes_used and rng.random() < 0.6:
        base = rng.choice(scopes_used)
        sc = base[:rng.randint(0, len(base))]
      param = rng.choice(cand)
      key = ('/'.join(sc), full, param)
      k = rng.random()
      uid[0] += 1
      prev = [o['val'].get('lit') for o in ops
              if o['op'] == 'bind' and o.get('full') == full and
              o.get('param') == param and o.get('scope') == '/'.join(sc)]
      if prev and type(prev[-1]) in (int, float, bool) and prev[-1] in (0, 1) \
          and rng.random() < 0.6:
        # re-bound to a value that compares equal but is written differently
        # (1 -> True -> 1.0): the record shows the latest
        val = {'lit': rng.choice([x for x in ([1, True, 1.0] if prev[-1] == 1
                                              else [0, False, 0.0])
                                  if type(x) is not type(prev[-1])])}
      elif k < 0.08:
        # plain scalars that compare (and hash) equal to the enum member used
        # as a non-literal value elsewhere
        val = {'lit': rng.choice([1, 1.0, True, 2, 0, False])}
      elif k < 0.55 or spec['name'].startswith('prod'):
        val = {'lit': c01._bound_value(rng, uid)}  # pylint: disable=protected-access
      elif k < 0.72:
        val = {'ref': [rng.choice(['', 'a', 'b/ab']), 'prod%d' %
                       rng.randrange(nprod), True]}
        refparams.add((full, param))
      elif k < 0.87:
        name = 'MAC%d' % rng.randint(0, 2)
        if name not in macros:
          # (a macro's value may be falsy like any other value)
          macros[name] = rng.choice(['mv%d' % uid[0], 'mv%d' % uid[0], 0, '',
                                     None, False, []])
          ops.append({'op': 'macro', 'name': name, 'val': macros[name]})
        val = {'macro': name}
      else:
        if key in nonrep or key not in [
            (o.get('scope'), o.get('full'), o.get('param')) for o in ops]:
          val = {'obj': 'o%d' % uid[0]}
          nonrep.add(key)
        else:
          val = {'lit': 'b%d' % uid[0]}
      if key in nonrep and 'obj' not in val:
        continue
      ops.append({'op': 'bind', 'scope': '/'.join(sc), 'full': full,
                  'param': param, 'val': val})
      model.bind('/'.join(sc), full, param, val)
      scopes_used.append(sc)
    elif r < 0.9:
      if spec['name'].startswith('prod') and rng.random() < 0.7:
        continue
      sc = c01._scope(rng, 2)  # pylint: disable=protected-access
      if scopes_used and rng.random() < 0.7:
        sc = list(rng.choice(scopes_used))
      call = cm.gen_call(rng, spec, model, sc, uid,
                         allow_required=rng.random() < 0.3)
      if call is None:
        continue
      pos, kw = call
      ops.append({'op': 'call', 'probe': spec['name'], 'scope': sc,
                  'ambient': sc, 'pos': pos, 'kw': kw, 'via': 'direct',
                  'raises': rng.random() < 0.1})
    else:
      ops.append({'op': 'check'})
  static = rng.random() < 0.7
  if static:
    # A fixed configuration first, then the calls: the shape for which the
    # property promises that the text suffices to replay.
    ops = ([o for o in ops if o['op'] in ('bind', 'macro')] +
           [o for o in ops if o['op'] not in ('bind', 'macro')])
  singleton = None
  if rng.random() < 0.3:
    singleton = {'key': rng.choice(['sk7', 'sk7/deep']),
                 'ambient': rng.choice([[], [], ['amb']]),
                 'bind_z': rng.random() < 0.5}
  namesake = None
  if rng.random() < 0.15:
    namesake = {'scope': rng.choice([[], [], ['ns']]),
                'read_between': rng.random() < 0.8,
                'also_config_str': rng.random() < 0.4}
  return {'specs': specs, 'ops': ops, 'static': static, 'singleton': singleton,
          'namesake': namesake}


class _Mode(__import__('enum').IntEnum):
  FAST = 1
  SLOW = 2


def _special_object(tag):
  """Values without a literal form (the tag's number picks the kind)."""
  n = int(tag[1:]) % 5
  if n == 4:
    return _Mode.SLOW
  if n == 0:
    return probes.Tok(0, tag)
  if n == 1:
    return float('inf')
  if n == 2:
    return float('nan')
  return _Mode.FAST


def _resolve(v, macros, objs):
  if 'lit' in v:
    return v['lit']
  if 'ref' in v:
    return 'ret-' + v['ref'][1]
  if 'macro' in v:
    return macros.get(v['macro'])
  if 'obj' in v:
    return objs[v['obj']]
  return v


def _text_of(v):
  if 'lit' in v:
    return repr(v['lit'])
  if 'ref' in v:
    sc, name, ev = v['ref']
    return '@%s%s()' % (sc + '/' if sc else '', name)
  return '%' + v['macro']


def read_operative(text):
  """Sections and bindings of an operative text, through gin's parser."""
  sections = set()
  for line in text.split('\n'):
    m = _SECTION_RE.match(line)
    if m:
      sections.add(m.group(1))
  stmts = c18.parse_statements(text)
  return sections, stmts


def _play(case, bind_from_text=None):
  """Runs the history.  With bind_from_text, binds are replaced by parsing that
  text once (the replay)."""
  gin = world.gin
  world.reset()
  log = probes.Log()
  w = c01.World(case['specs'], log)
  raising = {'on': False}
  orig_hook_calls = w.calls
  model = cm.Model(case['specs'])
  macros = {}
  objs = {}
  viol = []
  received = []
  texts = []
  stats = {'calls': 0, 'producer_calls': 0, 'raising_calls': 0}

  def v(oracle, disc, msg):
    if len(viol) < 10:
      viol.append({'oracle': oracle, 'sig': [ID, oracle] + list(disc),
                   'msg': msg})

  if bind_from_text is not None:
    try:
      gin.parse_config(bind_from_text)
    except Exception as e:  # pylint: disable=broad-except
      v('C07.text_parses', [type(e).__name__],
        'operative text does not parse in a reset world: %s: %s\n%s' %
        (type(e).__name__, probes.scrub(str(e))[:300], bind_from_text))
      return viol, log, model, received, texts, stats

  def model_call(spec, op):
    full = cm.full_name(spec)
    exp = model.expect_call(full, op['scope'], op['pos'], op['kw'])
    if exp['status'] != 'ok':
      return exp
    # evaluate what gin supplied
    for n in sorted(exp['from_gin']):
      val = model.applicable(full, op['scope']).get(n)
      if isinstance(val, dict) and 'ref' in val:
        sc, pname, _ = val['ref']
        pscope = sc.split('/') if sc else op['scope']
        pspec = [s for s in case['specs'] if s['name'] == pname][0]
        model.expect_call(cm.full_name(pspec), pscope, [], {})
        stats['producer_calls'] += 1
      elif isinstance(val, dict) and 'macro' in val:
        model.operative.setdefault((val['macro'], 'gin.macro'), {})[
            'value'] = {'lit': macros.get(val['macro'])}
    return exp

  def check_text(where):
    try:
      text = gin.operative_config_str()
    except Exception as e:  # pylint: disable=broad-except
      v('C07.text_available', [type(e).__name__],
        '%s: operative_config_str() raised %s: %s' %
        (where, type(e).__name__, probes.scrub(str(e))[:300]))
      return None
    texts.append(text)
    try:
      sections, stmts = read_operative(text)
    except Exception as e:  # pylint: disable=broad-except
      v('C07.text_parses', [type(e).__name__],
        '%s: operative text does not parse: %s\n%s' % (where, e, text))
      return text
    want_sections = set()
    want = set()
    for (scope, full), rec in model.operative.items():
      if full == 'gin.macro':
        val = rec['value']
        want.add(('', scope, '', probes.stable(val['lit'])))
        continue
      name = full.split('.')[-1]
      want_sections.add((scope + '/' if scope else '') + name)
      for p, val in rec.items():
        if isinstance(val, dict) and set(val) <= {'lit', 'ref', 'macro', 'obj'}:
          if 'obj' in val:
            continue
          if 'lit' in val:
            shown = probes.stable(val['lit'])
          elif 'ref' in val:
            shown = probes.stable(('ref', (val['ref'][0] + '/' if val['ref'][0]
                                           else '') + val['ref'][1], True))
          else:
            shown = probes.stable(('macro', val['macro']))
        else:
          shown = probes.stable(val)
        want.add((scope, name, p, shown))
    got = set()
    for scope, sel, arg, val in stmts:
      # normalise reference selectors to full names for comparison
      got.add((scope, sel, arg, val))
    norm_got = set()
    for scope, sel, arg, val in got:
      norm_got.add((scope, sel.split('.')[-1] if arg else sel, arg, val))
    if sections != want_sections:
      v('C07.sections', ['extra' if sections - want_sections else 'missing'],
        '%s: sections %r, model says %r\n%s' %
        (where, sorted(sections), sorted(want_sections), text))
    elif norm_got != want:
      extra = sorted(norm_got - want)
      missing = sorted(want - norm_got)
      v('C07.parameters', ['extra' if extra else 'missing'],
        '%s: operative text differs from the model record.\n only in text: %r\n'
        ' only in model: %r\n%s' % (where, extra, missing, text))
    return text

  ncall = 0
  for op in case['ops']:
    k = op['op']
    if k == 'macro':
      macros[op['name']] = op['val']
      if bind_from_text is None:
        gin.parse_config('%s = %r' % (op['name'], op['val']))
    elif k == 'bind':
      val = op['val']
      model.bind(op['scope'], op['full'], op['param'], val)
      if bind_from_text is None:
        key = (op['scope'] + '/' if op['scope'] else '') + op['full'] + '.' + \
            op['param']
        if 'obj' in val:
          objs[val['obj']] = _special_object(val['obj'])
          gin.bind_parameter(key, objs[val['obj']])
        else:
          gin.parse_config('%s = %s' % (key, _text_of(val)))
    elif k == 'call':
      spec = w.specs[op['probe']]
      exp = model_call(spec, op)
      toks = {}
      if op.get('raises') and exp['status'] == 'ok':
        w.raise_next = w.hookname[op['probe']]
        stats['raising_calls'] += 1
      exc, rec = w.invoke(op, toks)
      w.raise_next = None
      stats['calls'] += 1
      ncall += 1
      if exp['status'] != 'ok':
        continue
      if op.get('raises'):
        exc = None if isinstance(exc, RuntimeError) else (
            exc or AssertionError('injected fault did not propagate'))
      if exc is not None:
        v('C07.call_succeeds', [type(exc).__name__],
          'call %r raised %s: %s' % (op, type(exc).__name__,
                                     probes.scrub(str(exc))[:300]))
        continue
      if rec is None:
        v('C07.call_succeeds', ['body-not-run'], 'call %r: body did not run' % op)
        continue
      # producers may have been called by gin before: rec is the consumer's
      named = {n: x for n, x in rec[1].items() if n != 'self'}
      shown = {}
      for n, x in named.items():
        want = exp['named'].get(n)
        if isinstance(want, dict) and set(want) <= {'lit', 'ref', 'macro', 'obj'}:
          want = _resolve(want, macros, objs)
        shown[n] = probes.stable(x)
        if isinstance(x, probes.Tok) and x.label.startswith('c'):
          continue
        if probes.stable(x) != probes.stable(want) and bind_from_text is None:
          v('C07.received', [], 'call %r: %s received %r, model says %r' %
            (op, n, x, want))
      received.append((op['probe'], op['scope'], shown,
                       probes.stable(rec[2]),
                       probes.stable(dict(sorted(rec[3].items())))))
    elif k == 'check':
      if bind_from_text is None:
        check_text('after %d calls' % ncall)
  final = check_text('at the end') if bind_from_text is None else None
  if bind_from_text is not None:
    try:
      final = gin.operative_config_str()
    except Exception as e:  # pylint: disable=broad-except
      final = 'EXC %r' % e
  return viol, log, model, received, texts + [final], stats


def run(case):
  viol, log, model, received, texts, stats = _play(case)
  final = texts[-1]
  lg = probes.Log()
  lg.add('received', received)
  lg.add('final', final)
  representable = not any('obj' in op['val'] for op in case['ops']
                          if op['op'] == 'bind')
  replayed = False
  static = True
  seen_call = False
  for op in case['ops']:
    if op['op'] == 'call':
      seen_call = True
    elif op['op'] in ('bind', 'macro') and seen_call:
      static = False
  if final is not None and representable and static and not viol:
    v2, _, _, received2, texts2, _ = _play(case, bind_from_text=final)
    replayed = True
    viol += v2
    if not v2:
      if received2 != received:
        diff = [(a, b) for a, b in zip(received, received2) if a != b][:2]
        viol.append({'oracle': 'C07.replay_arguments',
                     'sig': [ID, 'C07.replay_arguments'],
                     'msg': 'after parsing the operative text in a reset world '
                            'and repeating the calls, arguments differ: %r\n%s' %
                            (diff, final)})
      elif texts2[-1] != final:
        viol.append({'oracle': 'C07.replay_text',
                     'sig': [ID, 'C07.replay_text'],
                     'msg': 'replay reproduces a different operative text:\n'
                            '--- first\n%s\n--- replay\n%s' % (final, texts2[-1])})
  if case.get('singleton') and not viol:
    viol += _singleton_scenario(case['singleton'], lg)
  if case.get('namesake') and not viol:
    viol += _namesake_scenario(case['namesake'], lg)
  seen = set()
  uniq = []
  for x in viol:
    t = tuple(x['sig'])
    if t not in seen:
      seen.add(t)
      uniq.append(x)
  lg.add('viol', sorted(repr(x['sig']) for x in uniq))
  calls = [op for op in case['ops'] if op['op'] == 'call']
  by_probe = {}
  for op in calls:
    by_probe.setdefault(op['probe'], set()).add(
        (tuple(op['scope']), len(op['pos']), tuple(sorted(op['kw']))))
  nontrivial = any(len(x) >= 2 for x in by_probe.values()) and any(
      op['op'] == 'bind' for op in case['ops'])
  return {
      'violations': uniq, 'digest': lg.digest(), 'key': lg.digest(),
      'nontrivial': nontrivial, 'steps': len(case['ops']),
      'ops': {'calls': stats['calls'], 'producer_calls_by_gin':
              stats['producer_calls'], 'replays': 1 if replayed else 0},
      'faults': {'body_raises': stats['raising_calls']},
      'probes': {'replayed': 1 if replayed else 0,
                 'non_representable_worlds': 0 if representable else 1},
      'sample_obs': {'operative_text': final},
  }


def _singleton_scenario(sc, lg):
  """A called gin.singleton is a called configurable like any other: it has a
  section (its constructor was supplied by Gin), and the text replays."""
  gin = world.gin
  viol = []
  got = {}

  def setup():
    world.reset()
    got.clear()

    def mk7(z=1):
      got.setdefault('mk7', []).append(z)
      return probes.Tok(len(got['mk7']), 'mk7')

    def user7(obj=None, w='dw'):
      got.setdefault('user7', []).append((getattr(obj, 'label', obj), w))
      return obj
    gin.configurable('mk7', module='mm.p')(mk7)
    return gin.configurable('user7', module='mm.p')(user7)

  def play(user):
    with gin.config_scope(sc['ambient'] or None):
      user()
      user()
    return gin.operative_config_str()
  user = setup()
  try:
    gin.parse_config(['%s/gin.singleton.constructor = @mm.p.mk7' % sc['key'],
                      'mm.p.user7.obj = @%s/gin.singleton()' % sc['key']] +
                     (['%s/mm.p.mk7.z = 5' % sc['key']] if sc['bind_z'] else []))
    text = play(user)
  except Exception as e:  # pylint: disable=broad-except
    return [{'oracle': 'C07.call_succeeds',
             'sig': [ID, 'C07.call_succeeds', 'singleton', type(e).__name__],
             'msg': 'singleton scenario %r raised %r' % (sc, e)}]
  first = dict(got)
  lg.add('singleton', sc, text)
  user = setup()
  try:
    gin.parse_config(text)
    problems = []
    ctor = gin.query_parameter('%s/gin.singleton.constructor' % sc['key'])
    if not getattr(ctor, 'selector', '').endswith('mk7'):
      problems.append('constructor is %r' % (ctor,))
    z = gin.query_parameter('%s/mm.p.mk7.z' % sc['key'])
    if z != (5 if sc['bind_z'] else 1):
      problems.append('mk7.z is %r' % (z,))
    scope_prefix = ('/'.join(sc['ambient']) + '/') if sc['ambient'] else ''
    gin.query_parameter('%smm.p.user7.obj' % scope_prefix)
    text2 = play(user)
    if dict(got) != first:
      problems.append('replayed calls received %r, first %r' % (dict(got), first))
    if text2 != text:
      problems.append('replay text differs:\n%s' % text2)
  except Exception as e:  # pylint: disable=broad-except
    problems = ['%s: %s' % (type(e).__name__, probes.scrub(str(e))[:300])]
  if problems:
    viol.append({'oracle': 'C07.sections',
                 'sig': [ID, 'C07.sections', 'called-singleton'],
                 'msg': 'a configuration that uses %s/gin.singleton (called '
                        'twice under %r): the operative text does not replay: '
                        '%s\n--- operative text\n%s' %
                        (sc['key'], sc['ambient'], problems, text)})
  return viol


def _namesake_scenario(ns, lg):
  """A configurable is called and the operative text read while its short name
  is unique; then a namesake in another module is registered and called: the
  text read afterwards still parses and replays."""
  gin = world.gin
  got = {}

  def make(tag, default):
    def twin7(a=default, b='db'):
      got.setdefault(tag, []).append((a, b))
    return twin7

  def setup(both):
    world.reset()
    got.clear()
    fa = gin.configurable('twin7', module='mm.pa')(make('pa', 1))
    fb = gin.configurable('twin7', module='mm.pb')(make('pb', 2)) if both \
        else None
    return fa, fb
  fa, fb = setup(False)
  try:
    gin.bind_parameter('twin7.a', 5)
    with gin.config_scope(ns['scope'] or None):
      fa()
    if ns['read_between']:
      gin.operative_config_str()
      if ns['also_config_str']:
        gin.config_str()
    fb = gin.configurable('twin7', module='mm.pb')(make('pb', 2))
    gin.bind_parameter('mm.pb.twin7.b', 'for-pb')
    with gin.config_scope(ns['scope'] or None):
      fa()
      fb()
    text = gin.operative_config_str()
  except Exception as e:  # pylint: disable=broad-except
    return [{'oracle': 'C07.call_succeeds',
             'sig': [ID, 'C07.call_succeeds', 'namesake', type(e).__name__],
             'msg': 'namesake scenario %r raised %r' % (ns, e)}]
  first = {k: v[-1] for k, v in got.items()}
  lg.add('namesake', ns, text)
  problems = []
  fa, fb = setup(True)
  try:
    gin.parse_config(text)
    with gin.config_scope(ns['scope'] or None):
      fa()
      fb()
    second = {k: v[-1] for k, v in got.items()}
    if second != first:
      problems.append('replayed calls received %r, first %r' % (second, first))
  except Exception as e:  # pylint: disable=broad-except
    problems = ['%s: %s' % (type(e).__name__, probes.scrub(str(e))[:300])]
  if problems:
    return [{'oracle': 'C07.text_parses',
             'sig': [ID, 'C07.text_parses', 'namesake-registered-later'],
             'msg': 'mm.pa.twin7 called%s, then mm.pb.twin7 registered and '
                    'both called: the operative text does not replay: %s\n'
                    '--- operative text\n%s' %
                    (' and the text read' if ns['read_between'] else '',
                     problems, text)}]
  return []


def shrinks(case):
  if case.get('namesake'):
    c = copy.deepcopy(case)
    c['namesake'] = None
    yield c
  if case.get('singleton'):
    c = copy.deepcopy(case)
    c['singleton'] = None
    yield c
  yield from shrink.tree_shrinks(case, {'ops'}, allow_empty=True)
