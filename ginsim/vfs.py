"""Virtual file system behind gin's reader seam (DESIGN 2.3).

`VFS.cells` maps (location_prefix, reader_index) -> {relative_name: text}.  A
path handed to a sim reader is looked up as os.path.join(prefix, name), exactly
as gin builds it.  Several sim readers can be registered in a chosen order; each
serves only its own cells.  A fault plan injects storage faults and counts how
often each actually fired.
"""
import errno
import os


class SimFile:
  """File-like object over text with a `.name`, readline and a fault plan."""

  def __init__(self, vfs, path, text, plan):
    self.vfs = vfs
    self.name = path
    self._lines = text.splitlines(True)
    self._i = 0
    self._plan = plan or {}
    self._reads = 0
    if self._plan.get('torn') is not None:
      cut = self._plan['torn']
      torn = text[:cut]
      if torn != text:
        vfs.fired('torn')
      self._lines = torn.splitlines(True)
    if self._plan.get('no_final_newline') and self._lines and \
        self._lines[-1].endswith('\n'):
      self._lines[-1] = self._lines[-1][:-1]
      vfs.fired('no_final_newline')

  def readline(self):
    k = self._plan.get('read_raises')
    if k is not None and self._reads == k:
      self._reads += 1
      self.vfs.fired('read_raises')
      raise OSError(errno.EIO, 'simulated I/O error', self.name)
    k = self._plan.get('read_enoent')
    if k is not None and self._reads == k:
      # (e.g. a network file system losing the file under the reader)
      self._reads += 1
      self.vfs.fired('read_enoent')
      raise FileNotFoundError(errno.ENOENT, 'simulated: file vanished',
                              self.name)
    k = self._plan.get('read_interrupts')
    if k is not None and self._reads == k:
      self._reads += 1
      self.vfs.fired('read_interrupts')
      raise Interrupt('simulated interrupt while reading %s' % self.name)
    self._reads += 1
    if self._i >= len(self._lines):
      return b'' if self._plan.get('bytes_lines') else ''
    line = self._lines[self._i]
    self._i += 1
    if self._plan.get('bytes_lines'):
      if self._i == 1:
        self.vfs.fired('bytes_lines')
      return line.encode('utf8')
    return line

  def __enter__(self):
    return self

  def __exit__(self, *exc):
    self.vfs.closed += 1
    return False


class Interrupt(BaseException):
  """KeyboardInterrupt-like fault: not an Exception."""


class VFS:

  def __init__(self, cells, nreaders=1, faults=None):
    """cells: list of [location_prefix, reader_index, {name: text}]."""
    self.table = {}
    for prefix, ri, files in cells:
      for name, text in files.items():
        self.table.setdefault(ri, {})[os.path.join(prefix, name)] = text
    self.nreaders = nreaders
    self.faults = faults or {}     # path -> plan dict
    self.fired_counts = {}
    self.opened = []               # (reader index, path) in order
    self.probed = []               # (reader index, path) existence checks
    self.closed = 0
    self.readers = [self._make_reader(i) for i in range(nreaders)]

  def fired(self, kind):
    self.fired_counts[kind] = self.fired_counts.get(kind, 0) + 1

  def _make_reader(self, ri):
    def sim_exists(path):
      self.probed.append((ri, path))
      plan = self.faults.get(path) or {}
      if plan.get('exists_raises'):
        self.fired('exists_raises')
        raise OSError(errno.EACCES, 'simulated permission error', path)
      return path in self.table.get(ri, {})

    def sim_open(path):
      plan = self.faults.get(path) or {}
      self.opened.append((ri, path))
      if plan.get('open_raises'):
        self.fired('open_raises')
        raise OSError(errno.ENOENT if plan['open_raises'] == 'enoent'
                      else errno.EACCES, 'simulated open failure', path)
      return SimFile(self, path, self.table[ri][path], plan)
    sim_open.__name__ = 'sim_open_%d' % ri
    return sim_open, sim_exists

  def register(self, gin, locations=()):
    for op, ex in self.readers:
      gin.config.register_file_reader(op, ex)
    for loc in locations:
      gin.add_config_file_search_path(loc)
