"""World management: importing gin from the working tree, sim locks, reset.

* `load_gin()` imports `gin` from $GINSIM_REPO (default /repo) exactly once, with
  `threading.Lock/RLock` replaced by cooperative `SimLock/SimRLock` factories for
  the duration of the import, and with every gin module's `threading` global
  replaced by a proxy afterwards, so any lock gin creates (at import time or
  later) is one the simulated scheduler can see.
* `snapshot()` / `reset()` implement twin worlds inside one process: a generic
  walk over the module globals of the gin modules (DESIGN 2.1).  It does not use
  `clear_config`, which is itself under test.
"""
import os
import sys
import types
import threading as _threading

REPO = os.environ.get('GINSIM_REPO', '/repo')

_real_allocate = _threading._allocate_lock  # pylint: disable=protected-access

gin = None
config = None
_GIN_MODULES = []
_SNAPSHOT = None

# The scheduler currently in charge (set by sched.Sched while it runs).
CURRENT_SCHED = None


def _cur():
  s = CURRENT_SCHED
  if s is None:
    return None, None
  t = s.thread_state()
  if t is None:
    return None, None
  return s, t


class SimLock:
  """Cooperative, non-reentrant lock visible to the simulated scheduler."""
  reentrant = False

  def __init__(self):
    self._owner = None
    self._count = 0

  def _me(self):
    s, t = _cur()
    return ('t', t.tid) if t is not None else ('main', 0)

  def acquire(self, blocking=True, timeout=-1):
    s, t = _cur()
    me = ('t', t.tid) if t is not None else ('main', 0)
    if t is not None:
      s.yield_point('lock.acquire')
    while True:
      if self._owner is None:
        self._owner = me
        self._count = 1
        return True
      if self.reentrant and self._owner == me:
        self._count += 1
        return True
      if not blocking or (timeout is not None and timeout >= 0):
        # A timed acquire in simulated time: no clock, so it simply fails.
        return False
      if t is None:
        raise RuntimeError('SimLock deadlock outside the simulator (owner %r)' %
                           (self._owner,))
      s.block_on(self)

  def release(self):
    s, t = _cur()
    me = ('t', t.tid) if t is not None else ('main', 0)
    if self._owner is None:
      raise RuntimeError('release unlocked lock')
    if self.reentrant and self._owner != me:
      raise RuntimeError('cannot release un-acquired lock')
    self._count -= 1
    if self._count <= 0:
      self._owner = None
      self._count = 0
      if s is not None:
        s.lock_released(self)
    if t is not None:
      s.yield_point('lock.release')

  def locked(self):
    return self._owner is not None

  __enter__ = acquire

  def __exit__(self, *exc):
    self.release()

  def _force_reset(self):
    self._owner = None
    self._count = 0


class SimRLock(SimLock):
  reentrant = True


class _ThreadingProxy(types.ModuleType):
  """`threading` as gin sees it: Lock/RLock are simulated, the rest is real."""

  def __init__(self):
    super().__init__('threading')

  def __getattr__(self, name):
    if name == 'Lock':
      return SimLock
    if name == 'RLock':
      return SimRLock
    return getattr(_threading, name)


def load_gin():
  """Imports gin from REPO (once) and takes the pristine snapshot."""
  global gin, config, _SNAPSHOT
  if gin is not None:
    return gin
  # Warm up every stdlib module gin uses, so that only gin's own module-level
  # locks are created while the factories are patched.
  import abc, ast, collections, contextlib, copy, enum, functools, inspect  # noqa
  import io, logging, pprint, re, tokenize, traceback, typing, importlib.util  # noqa
  if 'gin' in sys.modules:
    raise RuntimeError('gin imported before ginsim.world.load_gin()')
  sys.path.insert(0, REPO)
  real_lock, real_rlock = _threading.Lock, _threading.RLock
  _threading.Lock, _threading.RLock = SimLock, SimRLock
  try:
    import gin as _gin
  finally:
    _threading.Lock, _threading.RLock = real_lock, real_rlock
  want = os.path.join(os.path.realpath(REPO), 'gin')
  got = os.path.dirname(os.path.realpath(_gin.__file__))
  if got != want:
    raise RuntimeError('gin imported from %s, expected %s' % (got, want))
  gin = _gin
  config = _gin.config
  proxy = _ThreadingProxy()
  for name, mod in sorted(sys.modules.items()):
    if (name == 'gin' or name.startswith('gin.')) and mod is not None:
      f = getattr(mod, '__file__', None) or ''
      if os.path.realpath(f).startswith(want):
        _GIN_MODULES.append(mod)
        if getattr(mod, 'threading', None) is _threading:
          mod.threading = proxy
  logging.getLogger().setLevel(logging.CRITICAL)
  logging.disable(logging.CRITICAL)
  _SNAPSHOT = _take_snapshot()
  return gin


def gin_dir():
  return os.path.join(os.path.realpath(REPO), 'gin')


def _is_gin_instance(v):
  cls = type(v)
  if isinstance(v, (type, types.FunctionType, types.ModuleType)):
    return False
  mod = getattr(cls, '__module__', '') or ''
  return (mod == 'gin' or mod.startswith('gin.')) and not isinstance(v, tuple)


def _copy_container(v):
  if isinstance(v, dict):
    return {k: _copy_container(x) for k, x in v.items()}
  if isinstance(v, list):
    return [_copy_container(x) for x in v]
  if isinstance(v, set):
    return set(v)
  return v


def _take_snapshot():
  snap = []
  for mod in _GIN_MODULES:
    for name, val in list(vars(mod).items()):
      if name.startswith('__'):
        continue
      if isinstance(val, (dict, list, set)):
        snap.append((mod, name, 'container', val, _copy_container(val)))
      elif isinstance(val, (bool, int, str, type(None))):
        snap.append((mod, name, 'flag', None, val))
      elif isinstance(val, (SimLock,)):
        snap.append((mod, name, 'lock', val, None))
      elif isinstance(val, _threading.local):
        snap.append((mod, name, 'tls', type(val), None))
      elif _is_gin_instance(val) and hasattr(val, '__dict__'):
        snap.append((mod, name, 'instance', val,
                     _copy_container(dict(vars(val)))))
  # Instances held inside top-level lists (e.g. the base ParseContext).
  inner = []
  for mod, name, kind, obj, saved in snap:
    if kind == 'container' and isinstance(obj, list):
      for item in obj:
        if _is_gin_instance(item) and hasattr(item, '__dict__'):
          inner.append((item, _copy_container(dict(vars(item)))))
  return snap, inner


def reset():
  """Restores every gin module global to its state right after import."""
  snap, inner = _SNAPSHOT
  for mod, name, kind, obj, saved in snap:
    if kind == 'container':
      fresh = _copy_container(saved)
      if isinstance(obj, dict):
        obj.clear(); obj.update(fresh)
      elif isinstance(obj, list):
        obj[:] = fresh
      else:
        obj.clear(); obj.update(fresh)
      setattr(mod, name, obj)
    elif kind == 'flag':
      if name != 'threading':
        setattr(mod, name, saved)
    elif kind == 'lock':
      obj._force_reset()
      setattr(mod, name, obj)
    elif kind == 'tls':
      setattr(mod, name, obj())
    elif kind == 'instance':
      fresh = _copy_container(saved)
      vars(obj).clear(); vars(obj).update(fresh)
      setattr(mod, name, obj)
  for item, saved in inner:
    vars(item).clear(); vars(item).update(_copy_container(saved))
