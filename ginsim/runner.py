"""Parallel seeded runner: one forked child per simulated run (DESIGN 2.1).

A property module (ginsim/props/cNN.py) provides

  ID, LEVEL, RULE, QUICK_RUNS, THOROUGH_RUNS, COMPONENTS
  gen(rng, tier) -> case            JSON-able; everything a run needs
  run(case) -> result dict          executed in a forked child
  shrinks(case) -> iterable of smaller candidate cases (optional)

A result dict has: violations [ {oracle, sig, msg} ], digest, nontrivial (bool),
key (string identifying the distinct case class), steps (int), and optional
counters: faults {kind: n}, ops {kind: n}, probes {name: n}, sched {...}.
"""
import collections
import hashlib
import importlib
import json
import os
import pickle
import random
import select
import signal
import struct
import sys
import time
import traceback

from ginsim import world

NPROC = int(os.environ.get('GINSIM_PROCS', '16'))
CHILD_TIMEOUT = float(os.environ.get('GINSIM_CHILD_TIMEOUT', '60'))


def prop_module(pid):
  return importlib.import_module('ginsim.props.' + pid.lower())


def case_rng(seed, pid, i):
  return random.Random('%s/%s/%d' % (seed, pid, i))


# ---------------------------------------------------------------------------
# One run in one forked child.
# ---------------------------------------------------------------------------

def _child_main(fn, wfd):
  """Runs fn() in the child and writes its pickled return value to wfd."""
  try:
    try:
      import faulthandler
      faulthandler.enable()
      faulthandler.dump_traceback_later(CHILD_TIMEOUT - 2, exit=True)
    except Exception:  # pylint: disable=broad-except
      pass
    try:
      out = ('ok', fn())
    except BaseException:  # pylint: disable=broad-except
      out = ('harness_error', traceback.format_exc())
    data = pickle.dumps(out)
    with os.fdopen(wfd, 'wb') as f:
      f.write(data)
  finally:
    os._exit(0)


def run_forked(fn, timeout=None):
  """Executes fn() in a forked child; returns ('ok', value) | ('harness_error',
  text) | ('timeout', text)."""
  timeout = timeout or CHILD_TIMEOUT
  rfd, wfd = os.pipe()
  sys.stdout.flush(); sys.stderr.flush()
  pid = os.fork()
  if pid == 0:
    os.close(rfd)
    _child_main(fn, wfd)
  os.close(wfd)
  chunks = []
  deadline = time.monotonic() + timeout
  status = None
  try:
    while True:
      left = deadline - time.monotonic()
      if left <= 0:
        status = 'timeout'
        break
      r, _, _ = select.select([rfd], [], [], left)
      if not r:
        status = 'timeout'
        break
      b = os.read(rfd, 1 << 20)
      if not b:
        break
      chunks.append(b)
  finally:
    os.close(rfd)
  if status == 'timeout':
    try:
      os.kill(pid, signal.SIGKILL)
    except OSError:
      pass
    os.waitpid(pid, 0)
    return ('timeout', 'child exceeded %.0fs' % timeout)
  os.waitpid(pid, 0)
  data = b''.join(chunks)
  if not data:
    return ('harness_error', 'child died without output')
  try:
    return pickle.loads(data)
  except Exception:  # pylint: disable=broad-except
    return ('harness_error', 'unreadable child output')


def execute_case(mod, case):
  """Runs one case in the current process (must be a throw-away child)."""
  res = mod.run(case)
  res.setdefault('violations', [])
  res.setdefault('digest', '')
  res.setdefault('nontrivial', True)
  res.setdefault('key', res['digest'])
  res.setdefault('steps', 0)
  return res


def run_case_forked(mod, case, timeout=None):
  case = json.loads(jdump(case))
  return run_forked(lambda: execute_case(mod, case), timeout)


# ---------------------------------------------------------------------------
# Worker: a slice of run indices.
# ---------------------------------------------------------------------------

class Agg:
  """Aggregated statistics of many runs (mergeable)."""

  def __init__(self):
    self.runs = 0
    self.steps = 0
    self.nontrivial_keys = set()
    self.all_keys = set()
    self.faults = collections.Counter()
    self.ops = collections.Counter()
    self.probes = collections.Counter()
    self.sched = collections.Counter()
    self.sched_digests = set()
    self.edges = set()
    self.samples = []
    self.violations = []     # (run index, case, violation dict)
    self.harness_errors = []
    self.timeouts = 0
    self.inconclusive = 0

  def add(self, i, case, res, keep_sample):
    self.runs += 1
    self.steps += int(res.get('steps', 0))
    k = hashlib.sha1(str(res.get('key')).encode()).digest()[:8]
    self.all_keys.add(k)
    if res.get('nontrivial'):
      self.nontrivial_keys.add(k)
    for name in ('faults', 'ops', 'probes'):
      getattr(self, name).update(res.get(name) or {})
    sc = res.get('sched') or {}
    for kk, vv in sc.items():
      if kk == 'digest':
        self.sched_digests.add(vv[:16])
      elif kk == 'edges':
        self.edges.update(tuple(e) for e in vv)
      elif isinstance(vv, (int, float)):
        self.sched[kk] += vv
      elif isinstance(vv, dict):
        for k2, v2 in vv.items():
          self.sched['%s.%s' % (kk, k2)] += v2
    if res.get('inconclusive'):
      self.inconclusive += 1
    if keep_sample and len(self.samples) < 3 and res.get('nontrivial'):
      self.samples.append({'run': i, 'case': case,
                           'observed': res.get('sample_obs')})
    for v in res.get('violations') or []:
      if len(self.violations) < 40:
        self.violations.append((i, case, v))

  def merge(self, o):
    self.runs += o.runs
    self.steps += o.steps
    self.nontrivial_keys |= o.nontrivial_keys
    self.all_keys |= o.all_keys
    self.faults.update(o.faults)
    self.ops.update(o.ops)
    self.probes.update(o.probes)
    self.sched.update(o.sched)
    self.sched_digests |= o.sched_digests
    self.edges |= o.edges
    self.samples.extend(o.samples)
    self.violations.extend(o.violations)
    self.harness_errors.extend(o.harness_errors)
    self.timeouts += o.timeouts
    self.inconclusive += o.inconclusive


def _one_run(mod, seed, pid, i, tier):
  rng = case_rng(seed, pid, i)
  # Canonical JSON form, so that a case read back from a replay file is the
  # very same structure (key order included) as the one that ran in the sweep.
  case = json.loads(jdump(mod.gen(rng, tier)))
  res = execute_case(mod, case)
  return case, res


def _worker(mod, seed, pid, tier, indices, deadline):
  agg = Agg()
  for i in indices:
    if deadline and time.monotonic() > deadline:
      break
    st, val = run_forked(lambda: _one_run(mod, seed, pid, i, tier))
    if st == 'ok':
      case, res = val
      agg.add(i, case, res, keep_sample=True)
    elif st == 'timeout':
      agg.timeouts += 1
      agg.harness_errors.append('run %d: %s' % (i, val))
    else:
      if len(agg.harness_errors) < 5:
        agg.harness_errors.append('run %d: %s' % (i, val))
      else:
        agg.harness_errors.append('run %d: (harness error)' % i)
  return agg


def sweep(pid, seed, tier, nruns, nproc=None, wall_cap=None, start=0):
  """Runs indices start..start+nruns-1 of property pid; returns an Agg."""
  mod = prop_module(pid)
  nproc = nproc or NPROC
  nproc = max(1, min(nproc, nruns))
  deadline = (time.monotonic() + wall_cap) if wall_cap else None
  kids = []
  sys.stdout.flush(); sys.stderr.flush()
  for w in range(nproc):
    idx = range(start + w, start + nruns, nproc)
    rfd, wfd = os.pipe()
    p = os.fork()
    if p == 0:
      os.close(rfd)
      for k_r, _ in kids:
        try:
          os.close(k_r)
        except OSError:
          pass
      try:
        agg = _worker(mod, seed, pid, tier, idx, deadline)
        data = pickle.dumps(agg)
      except BaseException:  # pylint: disable=broad-except
        a = Agg()
        a.harness_errors.append('worker %d: %s' % (w, traceback.format_exc()))
        data = pickle.dumps(a)
      with os.fdopen(wfd, 'wb') as f:
        f.write(struct.pack('<Q', len(data)))
        f.write(data)
      os._exit(0)
    os.close(wfd)
    kids.append((rfd, p))
  total = Agg()
  for rfd, p in kids:
    with os.fdopen(rfd, 'rb') as f:
      head = f.read(8)
      if len(head) < 8:
        total.harness_errors.append('worker died')
      else:
        (n,) = struct.unpack('<Q', head)
        data = f.read(n)
        try:
          total.merge(pickle.loads(data))
        except Exception:  # pylint: disable=broad-except
          total.harness_errors.append('worker output unreadable')
    os.waitpid(p, 0)
  total.samples.sort(key=lambda s: s['run'])
  total.violations.sort(key=lambda v: v[0])
  return total


def jdump(obj):
  return json.dumps(obj, sort_keys=True, default=repr)
