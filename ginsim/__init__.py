"""ginsim: deterministic simulation with fault injection for google/gin-config.

See /verif/DESIGN.md.  Nothing in this package imports `gin` at import time;
`ginsim.world.load_gin()` does, from the repository working tree.
"""
