"""Minimisation of a failing case (DESIGN 2.7): greedy delta debugging over the
candidates a property module proposes, every candidate run in a fresh fork,
kept only when the *same violation signature* still fails."""
import copy

from ginsim import runner


def list_cuts(lst):
  """Yields copies of lst with a chunk removed: halves first, singles last."""
  n = len(lst)
  size = n // 2
  seen = set()
  while size >= 1:
    for start in range(0, n, size):
      key = (start, min(start + size, n))
      if key in seen or key == (0, n):
        continue
      seen.add(key)
      yield lst[:start] + lst[start + size:]
    size //= 2


def walk_lists(node, names, path=()):
  """Yields (path, list) for every list stored under a key in `names`."""
  if isinstance(node, dict):
    for k in sorted(node):
      v = node[k]
      if isinstance(v, list) and k in names:
        yield path + (k,), v
      yield from walk_lists(v, names, path + (k,))
  elif isinstance(node, list):
    for i, v in enumerate(node):
      yield from walk_lists(v, names, path + (i,))


def _set_path(root, path, value):
  root = copy.deepcopy(root)
  node = root
  for p in path[:-1]:
    node = node[p]
  node[path[-1]] = value
  return root


def tree_shrinks(case, names, allow_empty=True, hoist_key='body'):
  """Generic candidates: cut chunks out of every list named in `names`; replace
  a block (an element with a `hoist_key` list) by its body."""
  for path, lst in list(walk_lists(case, names)):
    if not lst:
      continue
    if len(lst) > 1 or allow_empty:
      if len(lst) == 1:
        yield _set_path(case, path, [])
      else:
        for cut in list_cuts(lst):
          yield _set_path(case, path, cut)
    for i, el in enumerate(lst):
      if isinstance(el, dict) and isinstance(el.get(hoist_key), list):
        yield _set_path(case, path, lst[:i] + el[hoist_key] + lst[i + 1:])


def minimise(mod, case, sig, budget=250, timeout=30, log=None):
  """Returns (smaller case, its violation dict, executions used)."""

  def fails(c):
    st, val = runner.run_case_forked(mod, c, timeout)
    if st != 'ok':
      return None
    for v in val.get('violations') or []:
      if v.get('sig') == sig:
        return v, val
    return None

  first = fails(case)
  used = 1
  if first is None:
    return case, None, used
  best_v = first
  shrinks = getattr(mod, 'shrinks', None)
  if shrinks is None:
    return case, best_v, used
  progress = True
  while progress and used < budget:
    progress = False
    for cand in shrinks(case):
      if used >= budget:
        break
      used += 1
      got = fails(cand)
      if got is not None:
        case, best_v = cand, got
        progress = True
        break
  return case, best_v, used
