"""Config-text generation: statements, layouts, include trees, flattening.

A *file* is a list of chunks; a chunk is {'lines': [str...], 'stmt': S | None}.
S is one of
  {'k': 'bind', 'scope': str, 'sel': str, 'param': str, 'val': V}
  {'k': 'macro', 'name': str, 'val': V}
  {'k': 'block', 'scope': str, 'sel': str, 'members': [[param, V], ...]}
  {'k': 'include', 'file': str}
  {'k': 'import', 'form': 'import'|'from'|'import_as'|'from_as', 'module': str,
   'alias': str|None}
V (ValueSpec) is {'lit': json} | {'ref': [scope, name, evaluate]} |
  {'macro': name} | {'list': [V]} | {'tuple': [V]} | {'dict': [[V, V]]}.
Files carry their own text so that a replay never re-draws a layout.
"""


def render_value(v):
  if 'lit' in v:
    return repr(v['lit'])
  if 'ref' in v:
    scope, name, ev = v['ref']
    return '@%s%s%s' % (scope + '/' if scope else '', name, '()' if ev else '')
  if 'macro' in v:
    return '%' + v['macro']
  if 'list' in v:
    return '[' + ', '.join(render_value(x) for x in v['list']) + ']'
  if 'tuple' in v:
    items = [render_value(x) for x in v['tuple']]
    if len(items) == 1:
      return '(' + items[0] + ',)'
    return '(' + ', '.join(items) + ')'
  if 'dict' in v:
    return '{' + ', '.join('%s: %s' % (render_value(k), render_value(x))
                           for k, x in v['dict']) + '}'
  raise ValueError(v)


def stmt_lines(s, rng=None):
  """Renders one statement as a list of text lines (layout drawn from rng)."""
  k = s['k']
  sp = ' '
  if rng is not None and rng.random() < 0.2:
    sp = rng.choice(['', '  '])
  if k == 'bind':
    key = (s['scope'] + '/' if s['scope'] else '') + s['sel'] + '.' + s['param']
    val = render_value(s['val'])
    if rng is not None and rng.random() < 0.15:
      return ['%s%s=%s\\' % (key, sp, sp), '    ' + val]
    if rng is not None and rng.random() < 0.15 and val[0] in '[{' and \
        len(val) > 2:
      return ['%s%s=%s%s' % (key, sp, sp, val[0]), '    ' + val[1:-1] + ',',
              val[-1]]
    return ['%s%s=%s%s' % (key, sp, sp, val)]
  if k == 'macro':
    return ['%s%s=%s%s' % (s['name'], sp, sp, render_value(s['val']))]
  if k == 'block':
    head = (s['scope'] + '/' if s['scope'] else '') + s['sel'] + ':'
    if rng is not None and rng.random() < 0.3:
      head += '  # block'
    out = [head]
    ind = '  ' if rng is None else rng.choice(['  ', '    ', '\t'])
    for p, v in s['members']:
      if rng is not None and rng.random() < 0.15:
        out.append('')
      out.append('%s%s = %s' % (ind, p, render_value(v)))
    return out
  if k == 'include':
    q = "'" if rng is None or rng.random() < 0.5 else '"'
    return ['include %s%s%s' % (q, s['file'], q)]
  if k == 'import':
    f = s['form']
    if f == 'import':
      return ['import ' + s['module']]
    if f == 'import_as':
      return ['import %s as %s' % (s['module'], s['alias'])]
    head, _, tail = s['module'].rpartition('.')
    if f == 'from':
      return ['from %s import %s' % (head, tail)]
    return ['from %s import %s as %s' % (head, tail, s['alias'])]
  raise ValueError(k)


def make_file(stmts, rng):
  """Builds the chunk list of a file from statements, with noise chunks."""
  chunks = []
  for s in stmts:
    if rng.random() < 0.2:
      chunks.append({'lines': [rng.choice(['', '# a comment', '   ',
                                           '# x.y = 3'])], 'stmt': None})
    lines = stmt_lines(s, rng)
    if rng.random() < 0.15 and s['k'] != 'block':
      lines[-1] += '  # trailing'
    chunks.append({'lines': lines, 'stmt': s})
    if s['k'] == 'block':
      # A block must be followed by a dedent before the next statement.
      pass
  return {'chunks': chunks}


def file_text(f, final_newline=True):
  lines = []
  for c in f['chunks']:
    lines.extend(c['lines'])
  text = '\n'.join(lines)
  if final_newline and lines:
    text += '\n'
  return text


def chunk_line(f, ci):
  """1-based line number at which chunk ci starts."""
  n = 1
  for c in f['chunks'][:ci]:
    n += len(c['lines'])
  return n


def flatten(files, root, chain=()):
  """Yields (stmt, chain) in application order, where chain is the tuple of
  (file, chunk_index) from the root file down to the statement's own file.
  Include statements themselves are yielded too (so they can be faulted)."""
  f = files[root]
  for ci, c in enumerate(f['chunks']):
    s = c['stmt']
    if s is None:
      continue
    here = chain + ((root, ci),)
    yield s, here
    if s['k'] == 'include' and s['file'] in files:
      yield from flatten(files, s['file'], here)


def flat_text(stmts):
  """Canonical one-statement-per-line text of a list of statements (includes
  dropped: their content is expected to be inlined by the caller)."""
  out = []
  for s in stmts:
    if s['k'] == 'include':
      continue
    if s['k'] == 'block':
      for p, v in s['members']:
        out.append('%s%s.%s = %s' % (s['scope'] + '/' if s['scope'] else '',
                                     s['sel'], p, render_value(v)))
    else:
      out.extend(stmt_lines(s, None))
  return '\n'.join(out) + ('\n' if out else '')
