"""Known findings (committed file, read-only at run time; DESIGN 2.7)."""
import json
import os

PATH = os.path.join(os.path.dirname(os.path.dirname(os.path.abspath(__file__))),
                    'known_findings.json')


def load():
  if not os.path.exists(PATH):
    return []
  with open(PATH) as f:
    return json.load(f).get('findings', [])


def match(pid, sig, entries=None):
  """Returns the `known` entry whose signature equals sig, else None.

  `fixed` entries never match: they suppress nothing."""
  entries = load() if entries is None else entries
  for e in entries:
    if e.get('status') != 'known' or e.get('property') != pid:
      continue
    if list(e.get('signature')) == list(sig):
      return e
  return None
