#!/bin/bash
# usage: confirm_seeded.sh <PROP> <k> [rebased.diff]
# Confirms, in the scratch worktree /tmp/wt_<PROP>, that seeded change m<k>:
#  (a) demo exits 0 on the pristine tree, (b) with the change applied the 128
#  baseline tests still pass, (c) demo exits non-zero with the change.
# Then stores it as /verif/seeded/<PROP>-m<k>/ {patch.diff, demo.py, meta.json}.
set -u
P="$1"; K="$2"; REB="${3:-}"
WT=/tmp/wt8_$P; S=$WT/_seeded
cd $WT || exit 9
git checkout -q -- gin || exit 9
test -z "$(git status --short -- gin)" || { echo "worktree gin/ not pristine"; exit 9; }
PYTHONPATH=$WT timeout 120 /venv/bin/python $S/m${K}_demo.py >/dev/null 2>&1; d0=$?
git apply $S/m$K.diff || { echo "apply failed"; exit 9; }
changed=$(git diff --stat -- gin | tail -1)
tests=$(PYTHONPATH=$WT timeout 600 /venv/bin/python -m pytest -q -p no:cacheprovider tests/config_test.py tests/config_parser_test.py tests/selector_map_test.py tests/resource_reader_test.py 2>&1 | tail -1)
PYTHONPATH=$WT timeout 120 /venv/bin/python $S/m${K}_demo.py >/dev/null 2>&1; d1=$?
git checkout -q -- gin
echo "$P m$K: demo_orig=$d0 demo_changed=$d1 tests='$tests' [$changed]"
case "$tests" in *"128 passed"*) ok=1;; *) ok=0;; esac
if [ $d0 -eq 0 ] && [ $d1 -ne 0 ] && [ $ok -eq 1 ]; then
  D=/verif/seeded/$P-r8m$K; mkdir -p $D
  cp $S/m$K.diff $D/orig.diff; cp $S/m${K}_demo.py $D/demo.py
  if [ -n "$REB" ]; then cp "$REB" $D/patch.diff; else cp $S/m$K.diff $D/patch.diff; fi
  /venv/bin/python - "$P" "$K" "$S/m$K.json" "$D/meta.json" "$tests" "$d0" "$d1" <<'PY'
import json,sys
P,K,src,dst,tests,d0,d1=sys.argv[1:8]
try: m=json.load(open(src))
except Exception: m={}
json.dump({"property":P,"id":f"{P}-r8m{K}","summary":m.get("summary"),"needs_to_manifest":m.get("needs_to_manifest"),
 "author":"independent sub-agent given only the property text and a scratch worktree",
 "confirmed":{"where":f"/tmp/wt8_{P} (scratch git worktree of /repo at the pinned commit)","demo_exit_pristine":int(d0),"demo_exit_changed":int(d1),"test_suite_with_change":tests,
 "commands":[f"PYTHONPATH=/tmp/wt8_{P} /venv/bin/python demo.py","git apply patch.diff","PYTHONPATH=/tmp/wt8_{P} /venv/bin/python -m pytest -q -p no:cacheprovider tests/config_test.py tests/config_parser_test.py tests/selector_map_test.py tests/resource_reader_test.py"]},
 "detected_by":None}, open(dst,"w"), indent=1)
PY
  echo "  stored $D"
else
  echo "  NOT CONFIRMED"
fi
