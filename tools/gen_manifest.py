#!/usr/bin/env python3
"""Regenerates /verif/MANIFEST.json from the table below (kept valid always)."""
import json, os
HERE = os.path.dirname(os.path.dirname(os.path.abspath(__file__)))

# What the hardening rounds (DESIGN 11.5-11.5g) added on top of the texts below.
ADDED = {
 'C01': ' Added later: callable-object probes, calls that fail for a missing REQUIRED binding and a finalize (later binds inside unlock_config) in mid-history, BaseException raised in bodies, caller values with hostile __eq__. Round 8: method histories (registered, used or bound before its class is registered).',
 'C04': ' Added later: BaseException in the first evaluated producer, same-named producers in two modules, gin.REQUIRED markers next to caller values, finalize in mid-history, skip_unknown forms, scoped references under dynamic registration. Round 8: a scoped reference whose target is registered anew between two parses.',
 'C05': ' Added later: clear_config (with / without constants) in mid-history, deque-held references bound through the API, trailing-newline constant names. Round 8: %names as dict keys, consumers that mutate what they receive, a definition refused by the lock followed by unlock_config.',
 'C06': ' Added later: registered methods of same-named classes, placeholder-holding and reference-keyed dict values, ints beyond the repr digit limit, case-variant parameter names, references made ambiguous by a later registration, generated imports in two binding orders, iteration-order permutation of the set of recorded imports. Round 8: a class referenced by one text and a method of it configured by a later one.',
 'C07': ' Added later: callable-object probes, a called gin.singleton scenario with replay, falsy macro values. Round 8: a namesake registered after the text was read once.',
 'C08': ' Added later: parts C (dynamically registered functions / classes / methods) and D (constants, macros named like them), aliases, rejected inserts with valid trailing components, terminal-marker and trailing-newline names, ambiguity under skip_unknown.',
 'C09': ' Added later: BaseException exits, clear_config / failing macro evaluation / rejected finalize inside open scopes, trailing-newline names.',
 'C10': ' Added later: callable-object probes, bindings whose value is the REQUIRED marker. Round 8: a scope entered a second time while it is open.',
 'C11': ' Added later: re-listing the same callable or class, names freed by method re-homing taken again, dynamically registered bare methods, classes without construction parameters, positional-only parameters, a self-contained dropped-function pattern. Round 8: a class (with its registered method) defined twice, a method bound before its class is registered.',
 'C12': ' Added later: BaseException in unlock bodies, unlock_config as a decorator on a recursive function, mutation attempts from another thread, hook pairs returning one object, special references nested in lists / dict values / dict keys, parses that begin with an import, interactive re-registration under the lock.',
 'C13': ' Added later: functools.wraps over a registered function, BaseException in interactive bodies, stray exit_interactive_mode, dynamic configuration of a method of a registered class, classes without construction parameters, bound methods after their plain function, trailing-newline names. Round 8: lookup of an object displaced from its name.',
 'C14': ' Added later: skip_unknown forms on every entry point, dynamic names across files, module-is-not-a-package names.',
 'C15': ' Added later: gin builtins under dynamic registration, get_bindings on placeholder holders, a module failing with a nameless ImportError, a module whose import registers a configurable. Round 8: complete-name spelling of the late configurable under skip_unknown=True.',
 'C16': ' Added later: file names with braces, list-of-lines and extra-bindings entries, a decoy second reader, parse into a locked configuration, reads interrupted by BaseException, files vanishing under the reader. Round 8: recorded imports are part of the compared state, the corrected text is parsed again after every fault, a missing module that becomes importable.',
 'C17': ' Added later: classes not re-instantiable from args (always / for some instances), classes that cannot be proxied, levels registered with lists, a natural TypeError with brace keyword names, attribute snapshot at raise time. Round 8: classes whose __new__ validates with errors of its own.',
 'C18': ' Added later: constructor faults, None / falsy singletons, provenance reads, direct singleton_value uses, macros, clear_constants between phases.',
 'C19': ' Added later: capitalised and sibling packages, a plain gin.* import in a non-dynamic sibling text, statically registered objects under other names, a functools.wraps variant, scoped references, bad enabling statements under skip_unknown; one open known finding (alias-derived registry names). Round 8: a value holding a class reference and a reference to its method.',
 'C20': ' Added later: constants in the gin. namespace, root-bound and programmatic singleton constructors, parses interrupted by BaseException while reading.',
}

CHECKS = {
 'C06': dict(level='exploration', ref='3/C06',
   technique='history permutation and re-parse round trips in twin worlds (harness reset between): the same binding set applied in two orders with failing operations interleaved, every intermediate config_str re-parsed in a reset world; a share of runs under dynamic registration over virtual packages with colliding import names',
   text='Bindings with unique keys over probes whose dotted names collide or differ only in case carry values from a pool of 40 shapes (nested containers, strings that pprint wraps, quotes/newlines/unicode/backslashes, bytes, floats, references, macros, objects, inf, nan, IntEnum, sets), for every drawn max_line_length > continuation_indent; every text taken along the way must parse in a reset world, the final text must restore each representable binding with equal value and type, be a fixpoint, be identical for the second application order, list sections in canonical order, omit values without literal form (parameters and macros), keep every binding line verbatim under markdown(), and under dynamic registration re-parse so that every selector reaches the same planted object.',
   note='Hash order pinned (PYTHONHASHSEED=0) and re-checked under another seed by the determinism self-test; dict values are compared as dicts (order-insensitive).'),
 'C19': dict(level='exploration', ref='3/C19',
   technique='in-process fake import targets (ModuleType package tree in sys.modules) + simulated config files (VFS) with include trees; object-identity oracle through gin.get_configurable(planted object), config_str twin re-parsed in a reset world, bad-name faults with parse-context depth check',
   text='Files enable dynamic registration, import the virtual modules in all four forms (aliases drawn, bound names colliding across files), include one another with different imports per file, and configure functions, classes, a nested class, methods (before or after the class is referenced) and reference-holding consumers through their own symbols; every configured object - reached through the planted Python object itself - must receive the bound values whichever spellings were used, references made before a method registration must deliver a configured class whose method is configured, names from another file\'s imports / missing attributes / the gin symbol / late, aliased or unknown __gin__ statements must raise the stated class and leave the parse-context stack unchanged, and config_str() re-parsed in a reset world must configure the same objects identically.',
   note='The import system\'s finder/loader is a stub (modules planted in sys.modules); __import__, attribute resolution and all of gin are real.'),
 'C15': dict(level='exploration', ref='3/C15',
   technique='environment-fault injection (unknown configurable / unknown reference / missing module at chosen statements) across multi-parse histories with late registration and dynamic registration; statement-by-statement model of the reduced text plus a strict-parse twin world as oracle',
   text='Each parse mixes flat bindings, blocks, macro definitions and imports with known and unknown targets, references and modules under skip_unknown False / True / list / tuple / set (lists may also name registered configurables); the resulting store must equal the model of the text with exactly the covered unknown statements deleted (placeholders for covered unknown references), an uncovered unknown name must raise, the reduced texts parsed strictly in a reset world must give the same store, placeholders must raise "No configurable matching" on use and at finalize, and under dynamic registration names resolvable through the file\'s own imports are known whether or not an earlier parse registered them.',
   note='A binding whose own target is unknown never carries an unknown reference the list does not cover (value is parsed before the target is judged; property silent).'),
 'C13': dict(level='exploration', ref='3/C13',
   technique='seeded registration histories over 15 callable / class shapes x 3 registration APIs with an unregistered twin compiled from the same source as oracle; rejected registrations and raising interactive-mode bodies as faults with a registry-unchanged check',
   text='For every registration: register/external leave the original untouched (class attributes by identity, direct calls equal the twin\'s even with bindings present), the registry\'s version reached by selector, by the original object, by scoped selector and by the returned object receives the bindings, metadata (name, doc, signature, module) is preserved, class versions are subclasses whose instances are instances of - and, without registered methods, exactly of - the original class and pickle whenever the original does; each of 7 kinds of invalid registration must raise and leave every registry lookup unchanged; re-registration is possible only inside an interactive block and rejected again after the block exits by return or by exception.',
   note='No schedule is involved (DESIGN 3/C13 says so): the simulated facets are the registration history and the rejected operation; the shape x API product is sampled.'),
 'C20': dict(level='exploration', ref='3/C20',
   technique='seeded prefix histories over the union operation alphabet (incl. failed operations, locked configs, overlapping constants defined in interactive mode), then clear_config, with a fresh twin world (harness reset + same registrations/constants) running the same observations and suffix history; a share of runs races the clear with operative-config readers under the simulated scheduler',
   text='After the clear, config_str, operative_config_str, the lock flag, query_parameter on every key ever bound, default-only probe calls, singleton caches and constant lookups are observed in the cleared world and in the fresh twin, then the same suffix history runs on both; the observation logs must be identical (indistinguishable by later behaviour, not only by a snapshot), and the clear itself must not raise. With clear_constants=True only gin.REQUIRED may remain.',
   note='Registrations and finalize hooks are outside what clear_config resets; a reader that fails while racing with the clear is not judged (no property promises that), only the state the clear leaves behind.'),
 'C11': dict(level='exploration', ref='3/C11',
   technique='seeded histories of binding attempts (parameter class x API path x scope) with re-registrations in interactive mode, rejected operation as the fault: bit-identical store snapshot before/after, admission model (rule A6) as oracle',
   text='Attempts to bind valid, unknown, listed / unlisted, variadic-named and any-name-under-**kwargs parameters, methods through Class.method and by bare name, and unregistered configurables are made through string keys, tuple keys, config lines, indented blocks, scoped keys and finalize-hook mappings while the store is non-empty; a rejected attempt must raise and leave bindings (values by identity), provenance, config_str and the lock flag exactly as before, its value must never reach a later call, and an accepted one must be visible under the complete name. Re-registration in interactive mode changes lists / signatures between attempts.',
   note='Binding the implicit self/cls parameter of constructors is not judged (the property does not say).'),
 'C08': dict(level='exploration', ref='3/C08',
   technique='seeded insert/pop/copy/clear histories on SelectorMap and its copies against a naive dict+suffix model queried exhaustively after every operation; registration histories at API level with every spelling pushed through 8 API paths after every registration',
   text='Part A: after every operation every dotted suffix of every name ever used is looked up on every live map (exact-match precedence, single match, ambiguity error, unknown, get/in/len/items), minimal_selector must equal the shortest suffix that resolves back, and operations on a copy must not change any answer of the original. Part B: after every registration each spelling is used through bind (string/tuple), query, get_bindings, get_configurable (plain/scoped), @references; unique spellings must address one key / one configurable, ambiguous and unknown ones must raise, and two finalize hooks returning one parameter under two spellings must conflict. No schedule or I/O is involved (stated in DESIGN 3/C08): the simulated facet is the operation history.',
   note='Sampled histories over components {a,b,c}, names up to 4 components, up to 4 live maps.'),
 'C05': dict(level='exploration', ref='3/C05',
   technique='seeded multi-parse / multi-file histories (simulated files with includes) of macro definitions and uses in every relative order, constants over shared dotted suffixes, finalize as an operation; model of the latest macro bindings as oracle at every call',
   text='Macro definitions (literal, @producer(), %other, containers) and uses at any nesting are spread over several parse_config calls (skip_unknown False/True/list) and over included simulated files; every consumer call is compared with the model\'s latest bindings at call time, producers must run once per use, %constant must deliver the very object under every unambiguous abbreviation (ambiguous, invalid and duplicate definitions are errors), and finalize (root or under an active scope) must reject exactly the configurations with an unbound or unevaluated macro reference.',
   note='Constants are defined before the text that uses them; %a/b unbound while %a is bound is judged only at finalize.'),
 'C04': dict(level='exploration', ref='3/C04',
   technique='seeded call histories with mutating / raising consumer bodies and per-producer call counters against a model of reference evaluation; store snapshots (query_parameter + config_str) compared before/after every operation',
   text='Bindings are value trees (list/tuple/dict to depth 3) over literals and @p, @s/p, @p(), @s/t/p(); consumers are called under ambient scopes with any subset of parameters overridden positionally or by keyword; inside the body every delivered object is checked against the expected tree (fresh producer result with the right scope at entry, registry\'s own callable for @p, a callable that runs under exactly its scope for @s/p), then mutated (and the body may raise); producer counters must rise by exactly the evaluated occurrences in Gin-supplied parameters, and query_parameter / config_str must be unchanged after every call and after mutating the result of get_bindings.',
   note='Single caller thread; sampled histories.'),
 'C07': dict(level='exploration', ref='3/C07',
   technique='seeded call histories folded by an executable model of the operative record (rule A8), text read back through gin\'s own parser, then replay of the whole history from that text in a reset twin world',
   text='Each run binds literals, evaluated references, macros and non-literal objects (Tok, inf, nan, IntEnum), then calls consumers in any scopes with any caller-supplied / omitted / REQUIRED mix (some bodies raise); the operative text must list exactly the called (scope, configurable) sections and exactly the representable Gin-supplied parameters with their latest values (macros as definitions), and - for a static configuration with only representable values - parsing it in a reset world and repeating the calls must give every call the same arguments and reproduce the text.',
   note='Replay is only demanded when all binds precede all calls (the shape the property promises); representable-then-non-representable sequences for one parameter are not generated (DESIGN 3/C07 exclusion).'),
 'C01': dict(level='exploration', ref='3/C01',
   technique='seeded bind/call/observe histories against an executable reference model (prefix overlay + caller-wins rule), with calls of an epoch issued from 2-3 simulated threads under a seeded scheduler',
   text='Each run generates probes of every callable shape (function, class via __init__/__new__, method; positional, defaulted, keyword-only, *args, **kwargs; all three registration APIs), a bind history over scopes named so that one is a textual prefix of another, and calls with every split of parameters into positional / keyword / omitted reached directly, through get_configurable (object, name, scoped name) or instantiation; the body\'s recorded arguments, caller-object identity and scope at entry are compared with the model at every call, get_bindings/query_parameter at every observation. Sampled histories; evidence, not proof.',
   note='Binds never race with calls (gin promises nothing there); literal bound values only (references: C04, macros: C05, REQUIRED: C10).'),
 'C10': dict(level='exploration', ref='3/C10',
   technique='seeded bind/call histories with gin.REQUIRED placements against the executable reference model (rule A4), fault = absent binding with effect ordering (call must fail before the body runs); rejected registrations checked for atomicity',
   text='Same engine as C01 with REQUIRED markers as signature defaults (any position) and passed by the caller positionally / by keyword / for **kwargs names / into *args, every subset of marked parameters bound (incl. falsy values) at root or under scopes; the oracle demands the bound value in the marked position, never the marker, or RuntimeError naming the configurable and exactly the unfilled names in signature order with the body not run, ValueError for markers among unnamed variadics, and rejected registrations that leave nothing registered. No interleaving is involved (stated in DESIGN 3/C10).',
   note='Sampled histories; single caller thread.'),
 'C17': dict(level='fault_enumeration', ref='3/C17',
   technique='exception-fault enumeration: every concrete builtin exception class (canonical arguments) and 15 generated user-class shapes injected at a sampled site (body, __init__, __new__, evaluated reference, macro-held reference, singleton constructor, scoped wrapper) and nesting depth 1-4; caught object compared with the original',
   text='Each run fixes a site / depth / scope plan and injects the whole catalogue there (82 classes); the caught object must be of the original class (and caught by every base), have equal args and every public non-callable attribute, a traceback containing the raising frame and every intermediate configurable frame, and a message that starts with the original and names every configurable level innermost-first with its active scope; non-Exception BaseExceptions must arrive as the identical object. Exhaustive over the catalogue per plan; plans are sampled (7 sites x depth 1-4 x scopes x callable kinds).',
   note='CPython 3.12 builtin exception classes; repr() of the caught object is not compared (the property names attributes, not repr).'),
 'C14': dict(level='fault_enumeration', ref='3/C14',
   technique='simulated storage behind gin\'s reader/search-path seam (in-memory VFS readers + real scratch dir + real package dirs) with missing-file / open-failure / existence-check-failure injected at every include position, heal-and-reparse, and a resolution model + flattened-text twin world as oracle',
   text='For each sampled world (file DAG with repeated/diamond includes, ordered locations x readers with each file present in a drawn subset of cells under distinct tagged content) the fault-free parse, the multi-file entry point and one fault scenario per include position and per file are executed; the store must equal the parse of the model-flattened text, the returned tree the model tree, unreadable names an IOError naming file and locations with exactly the preceding statements applied, and a re-parse after healing must succeed. Exhaustive over fault positions per world; worlds are sampled.',
   note='POSIX paths; package reader exercised with real package directories in a scratch tree on sys.path (plain directories are never expected to be served by it); import targets are virtual modules.'),
 'C12': dict(level='fault_enumeration', ref='3/C12',
   technique='seeded operation histories over the lock state machine with exhaustive raise/no-raise enumeration of the fault sites (unlock bodies, hooks) per history; executable model of lock flag + store checked after every operation',
   text='For each sampled history (finalize / nested unlock_config / bind / parse / register / clear / hooks of 9 kinds / configs that finalize must reject) all 2^k assignments of injected exceptions to the k fault sites are executed when k<=4 (16 sampled otherwise); the model of the flag and the store is compared after every operation and rejected operations must leave a bit-identical store. Enumeration is exhaustive per history, histories are sampled.',
   note='Single caller thread; store snapshots read gin.config._CONFIG/_CONFIG_PROVENANCE when present (config_str otherwise); finalize called under an active scope is not judged for macro validation (property silent).'),
 'C16': dict(level='fault_enumeration', ref='3/C16',
   technique='crash-point enumeration: every statement position x every fault kind injected into generated include trees served by a simulated file system; prefix-only twin world as oracle; storage faults (read error at every readline index, open failure) under a relaxed some-prefix oracle',
   text='For each sampled include tree (layouts, blocks, macros, imports, nested includes) every (unit position, fault kind) pair of 20 kinds is executed and compared with the store obtained from exactly the preceding units, plus scope / lock / parse-context restoration, error class, one location line per include level, SyntaxError.lineno, provenance comments and follow-up-parse equivalence. Exhaustive per tree over the fault grid; trees are sampled.',
   note='CPython 3.12 tokenizer only; recorded imports are not part of the compared state (property ambiguous there, DESIGN 7 #11); block = one syntactic unit (granularity rule in DESIGN 3/C16).'),
 'C09': dict(level='exploration', ref='3/C09',
   technique='deterministic thread-schedule simulation (baton-passed real threads, pre-emption at every gin source line) + injected exceptions on every scope exit path, per-thread model stack as oracle',
   text='Seeded search over nested scope-block programs (valid/invalid entries, normal/exceptional exits, re-entrant probe bodies, scoped references and get_configurable) run by 1-4 simulated threads under seeded schedules; each thread\'s view is compared with its own model stack at every observation. Evidence over the sampled histories x schedules, not proof.',
   note='Pre-emption at source-line granularity inside gin; binding store quiescent while threads run; CPython 3.12 only.'),
 'C18': dict(level='exploration', ref='3/C18',
   technique='deterministic thread-schedule simulation (baton-passed real threads, pre-emption at every gin source line, seeded policies seq/rand/pct/target) with a sequential twin run as oracle',
   text='Seeded search over interleavings of 2-4 simulated threads that call configurables, read the operative config and first-use singletons; a clean batch is evidence over the sampled schedules, not proof. Right level: the property quantifies over schedules, which only a controlled scheduler can reach reproducibly.',
   note='Pre-emption at source-line granularity inside gin plus lock operations and explicit constructor yields; C-level operations atomic as under the GIL; CPython 3.12 only; store quiescent while threads run.'),
}

NA = [
 ('C02', 'pure function text -> value: no state, schedule, clock, fault or I/O for a simulator to control (DESIGN.md section 4)'),
 ('C03', 'pure function text -> statement list: no state, schedule, clock, fault or I/O for a simulator to control (DESIGN.md section 4)'),
]
NOT_YET = {}

def main():
  props = [json.loads(l)['id'] for l in open(os.path.join(HERE, 'properties.jsonl'))]
  checks = []
  for pid in props:
    c = CHECKS.get(pid)
    if not c:
      continue
    checks.append({
      'property_id': pid,
      'quick_cmd': './check %s --tier quick' % pid,
      'thorough_cmd': './check %s --tier thorough' % pid,
      'evidence_file': 'evidence/%s.json' % pid,
      'replay_cmd_template': './check %s --replay {path}' % pid,
      'engine': 'ginsim',
      'level_claimed': {'category': c['level'], 'text': c['text'], 'design_ref': 'DESIGN.md section ' + c['ref']},
      'level_note': c['note'] + ADDED.get(pid, ''),
      'technique': c['technique'],
    })
  na = [{'property_id': p, 'reason': r} for p, r in NA]
  for pid in props:
    if pid not in CHECKS and pid not in dict(NA):
      na.append({'property_id': pid, 'reason': NOT_YET.get(pid, 'check not built yet in this tree (planned: DESIGN.md section 3); nothing is claimed for it')})
  m = {
   'version': 1,
   'setup_cmd': "/venv/bin/python -c \"import sys; sys.path.insert(0, '/verif'); from ginsim import world; g = world.load_gin(); print('gin from', g.__file__)\"",
   'hooks': {
     'guard': 'GIN_CONFIG_VERIF',
     'enable': 'no source hooks are needed: every seam is external (sys.settrace line events, cooperative locks substituted for gin\'s view of threading.Lock/RLock, register_file_reader / add_config_file_search_path, sys.modules, probe configurables). The guard name is reserved and unused; checks import gin from /repo\'s working tree at start.',
     'baseline_off_cmd': 'cd /repo && /venv/bin/python -m pytest -ra -q -p no:cacheprovider --timeout=900 --continue-on-collection-errors',
     'source_commits': [],
     'add_only': True,
   },
   'engines': [{'name': 'ginsim', 'path': 'ginsim/', 'serves_properties': [c['property_id'] for c in checks],
                'kind_free_text': 'home-grown deterministic simulator for a single-process library: seeded generator, one forked world per run, baton-passing thread scheduler over sys.settrace line events, virtual file system / virtual modules behind gin\'s reader and import seams, fault plans, reference model, ddmin minimiser, replay files'}],
   'checks': checks,
   'not_applicable': na,
   'notes': 'Exit codes: 0 held, 1 VIOLATION line printed, 2 harness error. VERIF_SEED selects the PRNG root; run i of property P uses random.Random("<seed>/<P>/<i>"). Known findings: known_findings.json (read-only at run time). Seeded breakages: seeded/<id>/.',
  }
  json.dump(m, open(os.path.join(HERE, 'MANIFEST.json'), 'w'), indent=1)
  print('wrote MANIFEST.json with %d checks, %d not_applicable' % (len(checks), len(na)))

if __name__ == '__main__':
  main()
