#!/bin/bash
# Determinism self-test for every registered check: N run indices twice (forward / reverse order, separate forks)
# under hash seeds 0 and 7, each in a fresh interpreter. Prints one line per (check, hash seed).
# usage: tools/selftest.sh [N]
cd "$(dirname "$0")/.."
N="${1:-100}"
rc=0
for id in $(/venv/bin/python -c "import json; print(' '.join(c['property_id'] for c in json.load(open('MANIFEST.json'))['checks']))"); do
  for hs in 0 7; do
    out=$(GINSIM_HASHSEED=$hs timeout 3600 ./check $id --selftest determinism --runs $N 2>&1 | tail -1)
    echo "$out"
    case "$out" in *" 0 differ"*) ;; *) rc=1;; esac
  done
done
exit $rc
