#!/bin/bash
# usage: try_seeded.sh <patch.diff> <check args...>   -- applies patch to /repo, runs ./check, reverts.
set -u
patch="$1"; shift
cd /repo && git apply "$patch" || { echo "APPLY FAILED"; exit 3; }
cd /verif && timeout 1800 ./check "$@" --no-evidence; rc=$?
cd /repo && git checkout -- . 
echo "exit=$rc"
