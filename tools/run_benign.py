#!/venv/bin/python
"""False-alarm self-test: applies each behaviour-preserving refactoring of gin
(selftest/benign/*.diff) to a scratch copy of /repo and runs every registered
check against it; every check must stay silent (exit 0).

usage: tools/run_benign.py [--runs=N] [name-substring ...]
(with substrings only the matching diffs run and RESULTS.json is merged)"""
import glob, json, os, shutil, subprocess, sys, tempfile
HERE = os.path.dirname(os.path.dirname(os.path.abspath(__file__)))
runs = '600'
for a in sys.argv[1:]:
  if a.startswith('--runs='):
    runs = a.split('=')[1]
checks = [c['property_id'] for c in json.load(open(os.path.join(HERE, 'MANIFEST.json')))['checks']]
only = [a for a in sys.argv[1:] if not a.startswith('--')]
results = {}
RES = os.path.join(HERE, 'selftest', 'benign', 'RESULTS.json')
if only and os.path.exists(RES):
  results = json.load(open(RES))
for patch in sorted(glob.glob(os.path.join(HERE, 'selftest', 'benign', '*.diff'))):
  name = os.path.basename(patch)
  if only and not any(o in name for o in only):
    continue
  scratch = tempfile.mkdtemp(prefix='ginsim_benign_', dir='/dev/shm')
  try:
    subprocess.check_call(['rsync', '-a', '--exclude', '.git', '/repo/', scratch + '/'])
    subprocess.check_call(['patch', '-p1', '-s', '-d', scratch, '-i', patch])
    t = subprocess.run(['/venv/bin/python', '-m', 'pytest', '-q', '-p', 'no:cacheprovider', 'tests/config_test.py',
                        'tests/config_parser_test.py', 'tests/selector_map_test.py', 'tests/resource_reader_test.py'],
                       cwd=scratch, env=dict(os.environ, PYTHONPATH=scratch), capture_output=True, text=True)
    results[name] = {'gin_tests': t.stdout.strip().split('\n')[-1], 'checks': {}}
    for pid in checks:
      q = subprocess.run([os.path.join(HERE, 'check'), pid, '--runs', runs, '--no-evidence'], cwd=HERE,
                         env=dict(os.environ, GINSIM_REPO=scratch, GINSIM_REPLAYS=os.path.join(scratch, '_replays')), capture_output=True, text=True, timeout=3600)
      results[name]['checks'][pid] = q.returncode
      for line in q.stdout.split('\n'):
        if line.startswith('VIOLATION ') and 'replay=' in line:
          try: os.unlink(line.split('replay=')[1].strip())
          except OSError: pass
    alarms = [p for p, rc in results[name]['checks'].items() if rc != 0]
    print(name, 'gin tests:', results[name]['gin_tests'], '| alarms:', alarms or 'none')
  finally:
    shutil.rmtree(scratch, ignore_errors=True)
json.dump(results, open(RES, 'w'), indent=1, sort_keys=True)
sys.exit(1 if any(rc != 0 for r in results.values() for rc in r['checks'].values()) else 0)
