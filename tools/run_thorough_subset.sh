#!/bin/bash
# usage: tools/run_thorough_subset.sh "<ids at full thorough counts>" "<ids at a quarter>"
# Same output format as run_all.sh; used when the time left does not allow every
# thorough tier at full length (the registered commands are the full ones).
cd "$(dirname "$0")/.."
rc_all=0
run() {
  id=$1; shift
  start=$(date +%s)
  out=$(timeout 7200 ./check $id --tier thorough --no-evidence "$@" 2>&1); rc=$?
  echo "$id rc=$rc $(( $(date +%s) - start ))s :: $(echo "$out" | grep -E "^$id " | cut -c1-160)"
  echo "$out" | grep -E "^(VIOLATION|KNOWN-FINDING|HARNESS-ERROR)" | cut -c1-200
  [ $rc -ne 0 ] && rc_all=1
}
for id in $1; do run $id; done
for id in $2; do
  n=$(/venv/bin/python -c "import sys; sys.path.insert(0,'.'); from ginsim import runner; print(runner.prop_module('$id').THOROUGH_RUNS // 4)")
  run $id --runs $n
done
exit $rc_all
