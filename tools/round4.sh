#!/bin/bash
P="$1"; cd /verif
for k in 1 2; do ./tools/confirm_seeded4.sh $P $k; done
ids=""; for k in 1 2; do [ -d seeded/$P-r4m$k ] && ids="$ids $P-r4m$k"; done
[ -n "$ids" ] && ./tools/run_seeded.py $ids 2>&1 | tail -4
