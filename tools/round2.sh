#!/bin/bash
# usage: tools/round2.sh PROP  - confirm the three round-2 mutants of PROP and run the owning check on each
P="$1"
cd /verif
for k in 1 2 3; do ./tools/confirm_seeded2.sh $P $k; done
ids=""
for k in 1 2 3; do [ -d seeded/$P-r2m$k ] && ids="$ids $P-r2m$k"; done
[ -n "$ids" ] && ./tools/run_seeded.py $ids 2>&1 | tail -4
