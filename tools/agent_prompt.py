#!/usr/bin/env python3
"""Prints the prompt given to an independent mutation sub-agent for one property.

The prompt contains only the property text (statement, quantifier, anchors) and
the path of the agent's scratch worktree - nothing about /verif's machinery.
"""
import json, sys
pid, wt = sys.argv[1], sys.argv[2]
n = sys.argv[3] if len(sys.argv) > 3 else "2"
for l in open('/verif/properties.jsonl'):
    p = json.loads(l)
    if p['id'] == pid:
        break
else:
    raise SystemExit('no such property')
print(f"""You are helping to test a verification tool for the open-source Python library google/gin-config.
Your job: produce {n} DIFFERENT, independent, realistic source changes ("seeded bugs") to gin-config, each of which breaks the behavioural property below while the library still imports and its existing test-suite still passes.

You have your own scratch git worktree of the library at {wt} (a detached checkout; the package is the directory {wt}/gin). Work ONLY inside {wt}. Do NOT read, list or touch /verif or /repo, and do not look for any verification machinery: your change must be independent of it.

THE PROPERTY ({p['id']}: {p['title']})
Statement: {p['statement']}
Quantified over: {p['quantifier']['text']}
Code that is meant to make it hold: {json.dumps(p['anchors']['mechanism'])}
Where it is observed: {json.dumps(p['anchors'].get('observe_at'))}

REQUIREMENTS for each change
1. It is a small, plausible edit to files under {wt}/gin/ (the kind of slip a maintainer could make in a refactor or "optimisation"), NOT a sabotage that ordinary use would expose at once. It must need something specific to manifest: a particular thread interleaving, a fault/exception at a particular point, a multi-step sequence of operations, an unusual input or configuration, or two cooperating sites that each look fine alone.
2. With the change applied the library must still import, and the existing test-suite must still pass exactly as before. Run it like this (takes ~5 s); the baseline is "6 failed, 128 passed, 1 skipped" (six __main__-dependent tests fail with or without your change - ignore those, but the same 128 tests must pass):
   cd {wt} && PYTHONPATH={wt} /venv/bin/python -m pytest -q -p no:cacheprovider tests/config_test.py tests/config_parser_test.py tests/selector_map_test.py tests/resource_reader_test.py 2>&1 | tail -5
   (Always set PYTHONPATH={wt} so that your worktree's gin is the one imported; verify with: PYTHONPATH={wt} /venv/bin/python -c "import gin; print(gin.__file__)")
3. For each change write a demonstration: a small standalone Python program that exits 0 on the ORIGINAL code and exits non-zero (assertion failure) on the CHANGED code, showing that the property as stated above is violated. Deterministic demonstrations are preferred; for a threading bug you may force the interleaving with events/barriers placed in user-level code (configurable bodies, constructors), not by patching gin.
4. The change must violate the property AS WORDED above (do not rely on behaviour the statement does not promise), and should not simply delete the feature.

DELIVERABLES (write them in {wt}/_seeded/ ; create the directory):
  For k = 1..{n}:  {wt}/_seeded/m<k>.diff   (output of `git diff` for that change alone, relative to the pristine checkout - make each change on the pristine tree: save each diff to a file and use `git checkout -- gin` between changes; NEVER use `git stash` - the stash is shared with other worktrees)
                   {wt}/_seeded/m<k>_demo.py (the demonstration; run as  PYTHONPATH={wt} /venv/bin/python m<k>_demo.py)
                   {wt}/_seeded/m<k>.json    ({{"property": "{p['id']}", "summary": "...", "needs_to_manifest": "...", "tests_passed": <int>, "demo_exit_original": 0, "demo_exit_changed": <int>}})
Leave the worktree's gin/ directory PRISTINE at the end (git checkout -- gin) so only _seeded/ differs.
In your final message, list for each change: one-line summary, what it needs to manifest, and the confirmed test / demo results. Be concise.""")
