#!/venv/bin/python
"""Sensitivity self-test: applies every seeded change (seeded/<id>/patch.diff) to
a scratch copy of /repo (never to /repo itself), runs the owning property's
check against it (GINSIM_REPO) and records whether it was detected.

usage: tools/run_seeded.py [ids...]   (default: all)   [--runs N]
Writes seeded/RESULTS.json and updates each meta.json's "detected_by".
"""
import json, os, shutil, subprocess, sys, tempfile, time
HERE = os.path.dirname(os.path.dirname(os.path.abspath(__file__)))
args = [a for a in sys.argv[1:] if not a.startswith('--')]
runs = None
for a in sys.argv[1:]:
  if a.startswith('--runs='):
    runs = a.split('=')[1]
ids = args or sorted(d for d in os.listdir(os.path.join(HERE, 'seeded'))
                     if os.path.isdir(os.path.join(HERE, 'seeded', d)))
results = {}
respath = os.path.join(HERE, 'seeded', 'RESULTS.json')
if os.path.exists(respath) and args:
  results = json.load(open(respath))
for mid in ids:
  d = os.path.join(HERE, 'seeded', mid)
  meta = json.load(open(os.path.join(d, 'meta.json')))
  prop = meta['property']
  if meta.get('not_applicable'):
    results[mid] = {'applies': True, 'not_applicable': meta['not_applicable']}
    print(mid, 'NOT APPLICABLE (see meta.json)')
    continue
  scratch = tempfile.mkdtemp(prefix='ginsim_mut_', dir='/dev/shm')
  try:
    subprocess.check_call(['rsync', '-a', '--exclude', '.git', '/repo/', scratch + '/'])
    p = subprocess.run(['patch', '-p1', '-s', '-d', scratch, '-i', os.path.join(d, 'patch.diff')],
                       capture_output=True, text=True)
    if p.returncode != 0:
      results[mid] = {'applies': False, 'detail': (p.stdout + p.stderr)[-300:]}
      print(mid, 'PATCH DOES NOT APPLY')
      continue
    env = dict(os.environ, GINSIM_REPO=scratch, GINSIM_REPLAYS=os.path.join(scratch, '_replays'))
    cmd = [os.path.join(HERE, 'check'), prop, '--tier', 'quick', '--no-evidence']
    if runs:
      cmd += ['--runs', runs]
    t0 = time.time()
    q = subprocess.run(cmd, capture_output=True, text=True, env=env, cwd=HERE, timeout=3600)
    sigs = [l for l in q.stdout.split('\n') if l.startswith('violation ')]
    results[mid] = {'applies': True, 'exit': q.returncode, 'wall_s': round(time.time() - t0, 1),
                    'violations': [s[:200] for s in sigs[:4]]}
    meta['detected_by'] = ({'check': prop, 'tier': 'quick', 'exit': q.returncode,
                            'oracles': sorted({s.split('oracle=')[1].split(' ')[0] for s in sigs})}
                           if q.returncode == 1 else None)
    json.dump(meta, open(os.path.join(d, 'meta.json'), 'w'), indent=1)
    print(mid, 'exit=%d' % q.returncode, results[mid]['wall_s'], 's', meta['detected_by'] and meta['detected_by']['oracles'])
    # replays written for the mutant are not evidence about /repo
    for line in q.stdout.split('\n'):
      if line.startswith('VIOLATION ') and 'replay=' in line:
        try: os.unlink(line.split('replay=')[1].strip())
        except OSError: pass
  finally:
    shutil.rmtree(scratch, ignore_errors=True)
json.dump(results, open(respath, 'w'), indent=1, sort_keys=True)
na = [m for m, r in results.items() if r.get('not_applicable')]
bad = [m for m, r in results.items()
       if not r.get('not_applicable') and (not r.get('applies') or r.get('exit') != 1)]
print('detected %d of %d applicable; not detected: %s; outside the properties: %s' %
      (len(results) - len(bad) - len(na), len(results) - len(na), bad, na))
