#!/bin/bash
# usage: tools/run_all.sh [quick|thorough]  - runs every check registered in MANIFEST.json, one after another.
tier="${1:-quick}"
cd "$(dirname "$0")/.."
rc_all=0
for id in $(/venv/bin/python -c "import json; print(' '.join(c['property_id'] for c in json.load(open('MANIFEST.json'))['checks']))"); do
  start=$(date +%s)
  out=$(timeout 7200 ./check $id --tier $tier 2>&1); rc=$?
  echo "$id rc=$rc $(( $(date +%s) - start ))s :: $(echo "$out" | grep -E "^$id " | cut -c1-160)"
  echo "$out" | grep -E "^(VIOLATION|KNOWN-FINDING|HARNESS-ERROR)" | cut -c1-200
  [ $rc -ne 0 ] && rc_all=1
done
exit $rc_all
