#!/bin/bash
P="$1"; cd /verif
for k in 1 2 3; do ./tools/confirm_seeded3.sh $P $k; done
ids=""; for k in 1 2 3; do [ -d seeded/$P-r3m$k ] && ids="$ids $P-r3m$k"; done
[ -n "$ids" ] && ./tools/run_seeded.py $ids 2>&1 | tail -4
